"""Virtual-time asyncio event loop (DESIGN 2.1).

`time()` is a virtual clock; the selector never blocks: it polls with timeout 0 and,
when nothing is ready, the requested timeout is added to the clock.  Everything that
taskiq does with asyncio timers (sleep, wait(timeout=0.3), wait_for, call_later) runs
unmodified, in zero real time, and deterministically.
"""
import asyncio


class Deadlock(RuntimeError):
    pass


class VirtualTimeLoop(asyncio.SelectorEventLoop):
    def __init__(self, start: float = 0.0) -> None:
        super().__init__()
        self._vtime = float(start)
        self.iterations = 0
        self.max_iterations = 0  # 0 = unlimited
        orig_select = self._selector.select

        def select(timeout=None):
            self.iterations += 1
            if self.max_iterations and self.iterations > self.max_iterations:
                raise Deadlock("virtual loop iteration budget exhausted")
            events = orig_select(0)
            if events:
                return events
            if timeout is None:
                raise Deadlock("virtual loop deadlock: nothing scheduled")
            if timeout > 0:
                self._vtime += timeout
            return events

        self._selector.select = select

    def time(self) -> float:
        return self._vtime


def run(coro_factory, start: float = 0.0, max_iterations: int = 0):
    """Run coro_factory(loop) to completion on a fresh virtual loop; always cleans up."""
    loop = VirtualTimeLoop(start)
    loop.max_iterations = max_iterations
    asyncio.set_event_loop(loop)
    try:
        return loop.run_until_complete(coro_factory(loop))
    finally:
        try:
            loop.max_iterations = 0
            pending = [t for t in asyncio.all_tasks(loop) if not t.done()]
            for t in pending:
                t.cancel()
            if pending:
                try:
                    loop.run_until_complete(asyncio.gather(*pending, return_exceptions=True))
                except BaseException:  # noqa: BLE001
                    pass
            try:
                loop.run_until_complete(loop.shutdown_asyncgens())
            except BaseException:  # noqa: BLE001
                pass
        finally:
            loop.close()
            asyncio.set_event_loop(None)
