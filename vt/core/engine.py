"""Shared engine: shard context, recorder, Hypothesis drivers, case hashing.

A property module (vt/props/cNN.py) exposes

    PID   = "C07"
    RULE  = "<how cases are generated and what makes one non-trivial>"
    ASSUMPTIONS = [...]
    def parts(tier) -> list[Part]
    def run_case(case) -> Outcome          # independent of Hypothesis; used for replay
    def known(case, violation, outcome) -> Optional[str]   # optional: id of matching open finding

A Part is one generated sub-space of the property (e.g. "inputs", "histories",
"enumerated") with its own strategy / enumerator and case budget.
"""
from __future__ import annotations

import collections
import hashlib
import json
import os
import sys
import time
import traceback
from dataclasses import dataclass, field
from typing import Any, Callable, Dict, Iterable, List, Optional, Tuple

ROOT = os.path.dirname(os.path.dirname(os.path.dirname(os.path.abspath(__file__))))


# --------------------------------------------------------------------------- data


@dataclass
class Violation:
    clause: str          # e.g. "C05.d"
    detail: str          # human readable, bounded length


@dataclass
class Outcome:
    violations: List[Violation] = field(default_factory=list)
    nontrivial: bool = False
    classes: List[str] = field(default_factory=list)   # generator-distribution labels
    trace: Any = None                                   # JSON-able, bounded
    clauses_checked: List[str] = field(default_factory=list)
    counters: Dict[str, int] = field(default_factory=dict)  # additive measurements
    info: Dict[str, Any] = field(default_factory=dict)      # derived facts for known-finding signatures

    def add(self, clause: str, detail: Any) -> None:
        self.violations.append(Violation(clause, short(detail, 1500)))


@dataclass
class Part:
    name: str
    kind: str                       # "given" | "enum" | "machine" | "covguided" (given-strategy driven by libFuzzer through atheris)
    shards: int
    examples: int                   # per shard (given/machine) ; ignored for enum
    strategy: Optional[Callable[[], Any]] = None       # given: () -> hypothesis strategy
    enumerate: Optional[Callable[[int, int], Iterable[Any]]] = None  # enum: (shard, nshards) -> cases
    machine: Optional[Callable[[Any], Any]] = None     # machine: (ctx) -> RuleBasedStateMachine class
    steps: int = 30
    soft_deadline_s: float = 0.0    # 0 = none; after it, remaining examples are skipped (counted)
    exhaustive: bool = False


class HarnessError(Exception):
    """The harness itself is broken (renamed module attribute, generator health...)."""


def short(obj: Any, n: int = 400) -> str:
    try:
        s = obj if isinstance(obj, str) else repr(obj)
    except BaseException:  # noqa: BLE001
        s = "<unrepr-able %s>" % type(obj).__name__
    return s if len(s) <= n else s[: n - 3] + "..."


def canon(case: Any) -> str:
    return json.dumps(case, sort_keys=True, separators=(",", ":"), default=_json_default)


def _json_default(o: Any) -> Any:
    if isinstance(o, (set, frozenset)):
        return sorted(o, key=repr)
    if isinstance(o, tuple):
        return list(o)
    if isinstance(o, bytes):
        return {"__bytes__": o.hex()}
    return {"__repr__": short(o, 200)}


def case_hash(case: Any) -> str:
    return hashlib.sha256(canon(case).encode("utf-8", "surrogatepass")).hexdigest()[:16]


def derive_seed(seed: int, pid: str, part: str, shard: int) -> int:
    h = hashlib.sha256(f"{seed}|{pid}|{part}|{shard}".encode()).digest()
    return int.from_bytes(h[:8], "big") >> 1


# --------------------------------------------------------------------------- recorder


class Recorder:
    MAX_SAMPLES = 4

    def __init__(self) -> None:
        self.evaluations = 0
        self.skipped = 0
        self.nontrivial = set()          # hashes
        self.nontrivial_evals = 0
        self.classes: collections.Counter = collections.Counter()
        self.clause_checked: collections.Counter = collections.Counter()
        self.counters: collections.Counter = collections.Counter()
        self.known_hits: collections.Counter = collections.Counter()
        self.samples: List[Any] = []
        self.failures: Dict[str, Dict[str, Any]] = {}   # clause -> {case, detail, trace}
        self.errors: List[str] = []
        self.t0 = time.time()

    def note(self, case: Any, out: Outcome) -> None:
        self.evaluations += 1
        for c in out.classes:
            self.classes[c] += 1
        for c in out.clauses_checked:
            self.clause_checked[c] += 1
        for k, v in out.counters.items():
            self.counters[k] += v
        if out.nontrivial:
            self.nontrivial_evals += 1
            h = case_hash(case)
            if h not in self.nontrivial:
                self.nontrivial.add(h)
                if len(self.samples) < self.MAX_SAMPLES and not out.violations:
                    self.samples.append({"case": case, "trace": out.trace, "classes": out.classes})

    def dump(self) -> Dict[str, Any]:
        return {
            "evaluations": self.evaluations,
            "skipped": self.skipped,
            "nontrivial": sorted(self.nontrivial),
            "nontrivial_evals": self.nontrivial_evals,
            "classes": dict(self.classes),
            "clause_checked": dict(self.clause_checked),
            "counters": dict(self.counters),
            "known_hits": dict(self.known_hits),
            "samples": self.samples,
            "failures": self.failures,
            "errors": self.errors,
            "wall_s": time.time() - self.t0,
        }


@dataclass
class Ctx:
    pid: str
    part: Part
    shard: int
    nshards: int
    seed: int           # derived per-shard seed
    tier: str
    rec: Recorder
    mod: Any
    known_open: Dict[str, Dict[str, Any]]     # finding id -> entry (open findings for this property)
    deadline: float = 0.0

    def triage(self, case: Any, out: Outcome) -> List[Violation]:
        """Split violations into known-finding hits (counted) and new ones (returned)."""
        new: List[Violation] = []
        kfn = getattr(self.mod, "known", None)
        for v in out.violations:
            fid = None
            if kfn is not None and self.known_open:
                try:
                    fid = kfn(case, v, out)
                except Exception:  # noqa: BLE001
                    self.rec.errors.append("known() raised: " + traceback.format_exc()[-800:])
                    fid = None
            if fid is not None and fid in self.known_open and self.known_open[fid].get("clause") == v.clause:
                self.rec.known_hits[fid] += 1
            else:
                new.append(v)
        return new


class _Fail(AssertionError):
    pass


# --------------------------------------------------------------------------- drivers


def drive_given(ctx: Ctx) -> None:
    import hypothesis
    from hypothesis import HealthCheck, Phase, Verbosity, given, settings

    rec, part, mod = ctx.rec, ctx.part, ctx.mod
    muted: set = set()
    strategy = part.strategy()
    phases = [Phase.generate, Phase.shrink]
    if os.environ.get("VERIF_NO_SHRINK"):
        phases = [Phase.generate]
    for _round in range(5):
        state: Dict[str, Any] = {"target": None, "last": None}

        def body(case: Any) -> None:
            if ctx.deadline and time.time() > ctx.deadline:
                rec.skipped += 1
                return
            out = mod.run_case(case)
            rec.note(case, out)
            new = [v for v in ctx.triage(case, out) if v.clause not in muted]
            if not new:
                return
            clauses = sorted({v.clause for v in new})
            if state["target"] is None:
                state["target"] = clauses[0]
            if state["target"] in clauses:
                v = next(v for v in new if v.clause == state["target"])
                state["last"] = {"case": case, "clause": v.clause, "detail": v.detail, "trace": out.trace}
                raise _Fail(v.clause)

        test = given(strategy)(body)
        test = settings(
            max_examples=part.examples,
            database=None,
            deadline=None,
            derandomize=False,
            report_multiple_bugs=False,
            verbosity=Verbosity.quiet,
            phases=phases,
            suppress_health_check=[HealthCheck.too_slow, HealthCheck.data_too_large, HealthCheck.filter_too_much, HealthCheck.large_base_example],
        )(test)
        test = hypothesis.seed(ctx.seed)(test)
        try:
            test()
            return
        except _Fail:
            pass
        except hypothesis.errors.Flaky as exc:  # non-determinism in harness = harness error
            rec.errors.append("Flaky: " + short(exc, 1500))
            if state["last"] is None:
                return
        except BaseException as exc:  # noqa: BLE001
            # Hypothesis may wrap; look for our failure
            if state["last"] is None:
                rec.errors.append("driver exception: " + traceback.format_exc()[-3000:])
                return
        last = state["last"]
        if last is None:
            return
        rec.failures.setdefault(last["clause"], last)
        muted.add(last["clause"])


def drive_enum(ctx: Ctx) -> None:
    rec, part, mod = ctx.rec, ctx.part, ctx.mod
    muted: set = set()
    for case in part.enumerate(ctx.shard, ctx.nshards):
        if ctx.deadline and time.time() > ctx.deadline:
            rec.skipped += 1
            continue
        out = mod.run_case(case)
        rec.note(case, out)
        for v in ctx.triage(case, out):
            if v.clause in muted:
                continue
            prev = rec.failures.get(v.clause)
            # keep the smallest failing case per clause (enumeration has no shrinker)
            if prev is None or len(canon(case)) < len(canon(prev["case"])):
                rec.failures[v.clause] = {"case": case, "clause": v.clause, "detail": v.detail, "trace": out.trace}


def drive_machine(ctx: Ctx) -> None:
    """Rule-based state machine: the machine class records its own op log in
    `machine.ops` and raises MachineFail(clause, detail, ops); the shrunk log is the
    replay case ({"part": name, "ops": [...]})."""
    import hypothesis
    from hypothesis import HealthCheck, Phase, Verbosity, settings
    from hypothesis.stateful import run_state_machine_as_test

    rec, part = ctx.rec, ctx.part
    muted: set = set()
    phases = [Phase.generate, Phase.shrink]
    if os.environ.get("VERIF_NO_SHRINK"):
        phases = [Phase.generate]
    for _round in range(4):
        state: Dict[str, Any] = {"target": None, "last": None}
        ctx_state = {"muted": muted, "state": state}
        cls = part.machine(ctx, ctx_state)
        cls = hypothesis.seed(ctx.seed)(cls)
        st = settings(
            max_examples=part.examples,
            stateful_step_count=part.steps,
            database=None,
            deadline=None,
            report_multiple_bugs=False,
            verbosity=Verbosity.quiet,
            phases=phases,
            suppress_health_check=[HealthCheck.too_slow, HealthCheck.data_too_large, HealthCheck.filter_too_much, HealthCheck.large_base_example],
        )
        try:
            run_state_machine_as_test(cls, settings=st)
            return
        except _Fail:
            pass
        except BaseException:  # noqa: BLE001
            if state["last"] is None:
                rec.errors.append("machine driver exception: " + traceback.format_exc()[-3000:])
                return
        last = state["last"]
        if last is None:
            return
        rec.failures.setdefault(last["clause"], last)
        muted.add(last["clause"])


def machine_report(ctx: Ctx, ctx_state: Dict[str, Any], case: Any, out: Outcome, final: bool) -> None:
    """Called by a machine after every step (final=False) and at teardown (final=True,
    where the finished history is counted as one evaluation)."""
    rec = ctx.rec
    if final:
        rec.note(case, out)
        return
    muted, state = ctx_state["muted"], ctx_state["state"]
    new = [v for v in ctx.triage(case, out) if v.clause not in muted]
    if not new:
        return
    clauses = sorted({v.clause for v in new})
    if state["target"] is None:
        state["target"] = clauses[0]
    if state["target"] in clauses:
        v = next(v for v in new if v.clause == state["target"])
        state["last"] = {"case": json.loads(canon(case)), "clause": v.clause, "detail": v.detail, "trace": out.trace}
        rec.note(case, out)
        raise _Fail(v.clause)


DEPS = os.path.join(os.path.dirname(os.path.dirname(os.path.dirname(os.path.abspath(__file__)))), ".deps")


def ensure_atheris() -> bool:
    """atheris is not part of the repository's environment: install it (offline wheel) beside the checks, once."""
    import fcntl
    import subprocess

    if DEPS not in sys.path:
        sys.path.append(DEPS)
    try:
        import atheris  # noqa: F401
        return True
    except Exception:  # noqa: BLE001
        pass
    os.makedirs(DEPS, exist_ok=True)
    with open(os.path.join(DEPS, ".lock"), "w") as lk:
        fcntl.flock(lk, fcntl.LOCK_EX)
        try:
            import importlib
            importlib.invalidate_caches()
            import atheris  # noqa: F401,F811
            return True
        except Exception:  # noqa: BLE001
            pass
        subprocess.run([sys.executable, "-m", "pip", "install", "-q", "--no-index", "--find-links", "/opt/veriftools/wheels",
                        "--target", DEPS, "atheris"], stdout=subprocess.DEVNULL, stderr=subprocess.DEVNULL)
    try:
        import importlib
        importlib.invalidate_caches()
        import atheris  # noqa: F401,F811
        return True
    except Exception:  # noqa: BLE001
        return False


def drive_covguided(ctx: Ctx) -> None:
    """The part's Hypothesis strategy decodes libFuzzer's byte strings (hypothesis' fuzz_one_input); libFuzzer mutates them guided by
    branch coverage of the instrumented `taskiq` package (instrumented at import in shard_main).  A violation is recorded with its
    structured case (replayable as is; these failures are not shrunk) and the search goes on.  libFuzzer ends the process itself, so the
    recorder is flushed to VERIF_SHARD_OUT from inside the callback."""
    from hypothesis import HealthCheck, Verbosity, given, settings

    rec, part, mod = ctx.rec, ctx.part, ctx.mod
    if not ensure_atheris():
        rec.counters["atheris_unavailable_fell_back_to_given"] += 1
        drive_given(ctx)
        return
    import atheris
    from hypothesis.internal.conjecture import providers as _prov

    def _draw_integer(self: Any, min_value: Any = None, max_value: Any = None, *, weights: Any = None, shrink_towards: int = 0) -> int:
        # hypothesis 6.168's BytestringProvider compares the raw drawn bits with [min_value, max_value] without adding min_value, so
        # every range with min_value > max_value - min_value (epoch microseconds, ...) is rejected for ever; draw an offset instead
        if min_value is None and max_value is None:
            min_value, max_value = -(2**127), 2**127 - 1
        elif min_value is None:
            min_value = max_value - 2**64
        elif max_value is None:
            max_value = min_value + 2**64
        if min_value == max_value:
            return min_value
        span = max_value - min_value
        bits = span.bit_length()
        value = self._draw_bits(bits)
        while value > span:
            value = self._draw_bits(bits)
        return min_value + value

    _prov.BytestringProvider.draw_integer = _draw_integer

    muted: set = set()
    n_target = part.examples
    out_path = os.environ["VERIF_SHARD_OUT"]
    state = {"n": 0, "last_flush": time.time()}

    def flush() -> None:
        tmp = out_path + ".tmp"
        with open(tmp, "w") as f:
            f.write(canon(rec.dump()))
        os.replace(tmp, out_path)
        state["last_flush"] = time.time()

    def body(case: Any) -> None:
        if ctx.deadline and time.time() > ctx.deadline:
            rec.skipped += 1
            return
        out = mod.run_case(case)
        rec.note(case, out)
        for v in ctx.triage(case, out):
            if v.clause not in muted:
                muted.add(v.clause)
                rec.failures.setdefault(v.clause, {"case": case, "clause": v.clause, "detail": v.detail, "trace": out.trace})

    test = settings(database=None, deadline=None, verbosity=Verbosity.quiet,
                    suppress_health_check=list(HealthCheck))(given(part.strategy())(body))
    fuzz_one = test.hypothesis.fuzz_one_input

    def one(data: bytes) -> None:
        state["n"] += 1
        try:
            fuzz_one(data)
        except BaseException:  # noqa: BLE001 - a harness problem, never a verdict
            if len(rec.errors) < 3:
                rec.errors.append("covguided callback raised: " + traceback.format_exc()[-2000:])
        rec.counters["libfuzzer_inputs"] += 1
        if state["n"] >= n_target - 1 or time.time() - state["last_flush"] > 5:
            flush()

    flush()
    atheris.Setup([sys.argv[0], f"-runs={n_target}", f"-seed={ctx.seed % (2**31 - 1) + 1}", "-max_len=4096", "-len_control=0", "-print_final_stats=0",
                   "-verbosity=" + os.environ.get("VERIF_LF_VERBOSITY", "0"), "-close_fd_mask=3", "-timeout=120", "-rss_limit_mb=4096"], one)
    atheris.Fuzz()          # does not return


DRIVERS = {"given": drive_given, "enum": drive_enum, "machine": drive_machine, "covguided": drive_covguided}
