"""Independent five-field cron matcher, written from crontab(5) (not from pycron).

Supported grammar per field: `*`, `*/n`, `v`, `a-b`, `a-b/s`, comma lists.  DOW 0-6 (0 = Sunday).
Day rule (crontab(5)): if both day-of-month and day-of-week are restricted (neither starts
with `*`), the entry matches when EITHER matches; otherwise both must match.
`*/n` steps start at the field's first value (minute 0, hour 0, day 1, month 1, dow 0).
"""
from __future__ import annotations

import datetime as dtm
from typing import Optional, Set

RANGES = [(0, 59), (0, 23), (1, 31), (1, 12), (0, 6)]


def field_set(f: str, lo: int, hi: int) -> Optional[Set[int]]:
    if f == "*":
        return None
    s: Set[int] = set()
    for it in f.split(","):
        if it.startswith("*/"):
            s |= set(range(lo, hi + 1, int(it[2:])))
        elif "-" in it:
            step = 1
            if "/" in it:
                it, st = it.split("/")
                step = int(st)
            a, b = map(int, it.split("-"))
            s |= set(range(a, b + 1, step))
        else:
            s.add(int(it))
    return s


def matches(expr: str, local: dtm.datetime) -> bool:
    mi, h, dom, mo, dow = expr.split(" ")
    sets = [field_set(f, lo, hi) for f, (lo, hi) in zip((mi, h, dom, mo, dow), RANGES)]
    wd = local.isoweekday() % 7

    def ok(s: Optional[Set[int]], v: int) -> bool:
        return s is None or v in s

    if not (ok(sets[0], local.minute) and ok(sets[1], local.hour) and ok(sets[3], local.month)):
        return False
    if not dom.startswith("*") and not dow.startswith("*"):
        return (local.day in sets[2]) or (wd in sets[4])  # type: ignore[operator]
    return ok(sets[2], local.day) and ok(sets[4], wd)
