"""CLI of the verification framework.

  ./check <PID> [quick|thorough]     run a property check (regress -> known findings -> search)
  ./check --replay <file>            re-run one saved case without Hypothesis
  ./check --selftest                 import everything, run one tiny case per property
  ./check --list

Exit codes: 0 property held on everything explored; 1 violation (prints
`VIOLATION property=<id> replay=<path>`); 2 harness error / inconclusive.
"""
from __future__ import annotations

import glob
import importlib
import json
import os
import subprocess
import sys
import time
import traceback
from typing import Any, Dict, List

HERE = os.path.dirname(os.path.abspath(__file__))
ROOT = os.path.dirname(HERE)
if ROOT not in sys.path:
    sys.path.insert(0, ROOT)
_REPO = os.environ.get("VERIF_REPO", "/repo")
if _REPO not in sys.path:
    sys.path.insert(0, _REPO)

from vt.core import engine  # noqa: E402
from vt.core.engine import Ctx, Outcome, Recorder, canon, case_hash, derive_seed  # noqa: E402

ALL = ["C%02d" % i for i in range(1, 21)]
MAXPROC = int(os.environ.get("VERIF_PROCS", "16"))


def load_mod(pid: str) -> Any:
    return importlib.import_module("vt.props." + pid.lower())


def load_known() -> Dict[str, Any]:
    p = os.path.join(ROOT, "known_findings.json")
    if not os.path.exists(p):
        return {"findings": [], "fixed": []}
    with open(p) as f:
        return json.load(f)


def open_findings(pid: str) -> Dict[str, Dict[str, Any]]:
    return {e["id"]: e for e in load_known().get("findings", []) if e.get("property") == pid and e.get("status") == "open"}


def seed_env() -> int:
    try:
        return int(os.environ.get("VERIF_SEED", "1"))
    except ValueError:
        return 1


# ------------------------------------------------------------------ shard entry


def get_parts(mod: Any, tier: str) -> Any:
    """The module's parts; in the thorough tier every generated part gets VERIF_THOROUGH_SCALE (default 3) times the
    examples its module asks for (the modules' own numbers were sized for a few minutes per property on 16 cores)."""
    parts = mod.parts(tier)
    if tier == "thorough":
        scale = max(1, int(os.environ.get("VERIF_THOROUGH_SCALE", "3") or 3))
        for p in parts:
            if p.kind in ("given", "machine", "covguided") and p.examples:
                p.examples = int(p.examples) * scale
                p.soft_deadline_s = max(int(p.soft_deadline_s or 0), 3600)
    return parts


def shard_env(env: Dict[str, str], part: Any, j: int) -> Dict[str, str]:
    """Environment of shard j: the last shard of every multi-shard part runs the interpreter in optimised mode (what `python -O` /
    PYTHONOPTIMIZE=1 deployments do: assert statements vanish) - the properties hold there as well.  The harness itself uses no assert."""
    e = dict(env)
    if part.kind == "covguided":
        e["VERIF_COVGUIDED"] = "1"
    if part.shards >= 2 and j == part.shards - 1 and not os.environ.get("VERIF_NO_OPT_SHARD"):
        e["PYTHONOPTIMIZE"] = "1"
    return e


def shard_main(argv: List[str]) -> int:
    pid, part_name, shard, nshards, tier, seed, out_path = argv
    shard, nshards, seed = int(shard), int(nshards), int(seed)
    import logging

    logging.disable(logging.CRITICAL)
    rec = Recorder()
    os.environ["VERIF_SHARD_OUT"] = out_path
    try:
        if os.environ.get("VERIF_COVGUIDED") == "1" and engine.ensure_atheris():
            import atheris

            with atheris.instrument_imports(include=["taskiq"], enable_loader_override=False):
                mod = load_mod(pid)
        else:
            mod = load_mod(pid)
        part = next(p for p in get_parts(mod, tier) if p.name == part_name)
        ctx = Ctx(pid=pid, part=part, shard=shard, nshards=nshards, seed=derive_seed(seed, pid, part_name, shard),
                  tier=tier, rec=rec, mod=mod, known_open=open_findings(pid))
        if part.soft_deadline_s:
            ctx.deadline = time.time() + part.soft_deadline_s
        engine.DRIVERS[part.kind](ctx)
    except BaseException:  # noqa: BLE001
        rec.errors.append("shard crashed: " + traceback.format_exc()[-4000:])
    if sys.flags.optimize:
        rec.counters["cases_run_under_python_O"] += rec.evaluations
    with open(out_path, "w") as f:
        f.write(canon(rec.dump()))
    return 0


# ------------------------------------------------------------------ replay helpers


def run_one(mod: Any, case: Any) -> Outcome:
    return mod.run_case(case)


def triage_plain(mod: Any, pid: str, case: Any, out: Outcome) -> (List[Any], List[str]):
    known_open = open_findings(pid)
    kfn = getattr(mod, "known", None)
    new, hits = [], []
    for v in out.violations:
        fid = kfn(case, v, out) if (kfn and known_open) else None
        if fid is not None and fid in known_open and known_open[fid].get("clause") == v.clause:
            hits.append(fid)
        else:
            new.append(v)
    return new, hits


def write_replay(pid: str, fail: Dict[str, Any], seed: int, tier: str, part: str) -> str:
    d = os.path.join(ROOT, "replays")
    os.makedirs(d, exist_ok=True)
    h = case_hash(fail["case"])
    path = os.path.join(d, f"{pid}-{fail['clause']}-{h}.json")
    with open(path, "w") as f:
        json.dump({"property": pid, "clause": fail["clause"], "part": part, "case": json.loads(canon(fail["case"])),
                   "detail": fail.get("detail"), "trace": json.loads(canon(fail.get("trace"))), "seed": seed, "tier": tier}, f, indent=1)
    return path


def replay_main(path: str) -> int:
    import logging

    logging.disable(logging.CRITICAL)
    with open(path) as f:
        rp = json.load(f)
    pid = rp["property"]
    mod = load_mod(pid)
    out = run_one(mod, rp["case"])
    new, hits = triage_plain(mod, pid, rp["case"], out)
    for v in out.violations:
        print(f"  {v.clause}: {v.detail}")
    for h in hits:
        print(f"KNOWN-FINDING: property={pid} {open_findings(pid)[h]['what']}")
    if new:
        print(f"VIOLATION property={pid} replay={path}")
        return 1
    print("replay: no (new) violation")
    return 0


# ------------------------------------------------------------------ check entry


def check_main(pid: str, tier: str) -> int:
    import logging

    logging.disable(logging.CRITICAL)
    t0 = time.time()
    seed = seed_env()
    mod = load_mod(pid)
    violations: List[str] = []
    known_lines: List[str] = []
    notes: List[str] = []

    # 1. regression tier: saved cases of repaired defects / directed seeds, no Hypothesis
    regress_files = sorted(glob.glob(os.path.join(ROOT, "regress", pid, "*.json")))
    regress_ok = 0
    for rf in regress_files:
        with open(rf) as f:
            rp = json.load(f)
        out = run_one(mod, rp["case"])
        new, _hits = triage_plain(mod, pid, rp["case"], out)
        if new:
            for v in new:
                print(f"  regress {os.path.basename(rf)}: {v.clause}: {v.detail}")
            violations.append(rf)
        else:
            regress_ok += 1

    # 2. open known findings: does the committed repro still fail the stated clause?
    kopen = open_findings(pid)
    for fid, e in sorted(kopen.items()):
        rp_path = os.path.join(ROOT, e["repro"])
        with open(rp_path) as f:
            rp = json.load(f)
        out = run_one(mod, rp["case"])
        new, hits = triage_plain(mod, pid, rp["case"], out)
        if fid in hits:
            known_lines.append(f"KNOWN-FINDING: property={pid} {e['what']}")
        else:
            notes.append(f"known finding {fid}: committed repro no longer fails")
        if new:
            for v in new:
                print(f"  known-repro {fid}: unexpected {v.clause}: {v.detail}")
            violations.append(rp_path)

    # 3. generated search, sharded
    parts = get_parts(mod, tier)
    jobs = []
    tmpdir = os.path.join(ROOT, ".shards", f"{pid}-{os.getpid()}")
    os.makedirs(tmpdir, exist_ok=True)
    for part in parts:
        for j in range(part.shards):
            outp = os.path.join(tmpdir, f"{part.name}-{j}.json")
            jobs.append((part, j, outp))
    if any(p.kind == "covguided" for p in parts):
        engine.ensure_atheris()
    env = dict(os.environ)
    env["PYTHONHASHSEED"] = "0"
    env["PYTHONPATH"] = ROOT + os.pathsep + _REPO + (os.pathsep + env["PYTHONPATH"] if env.get("PYTHONPATH") else "")
    running: List[Any] = []
    pending = list(jobs)
    results: Dict[str, List[Dict[str, Any]]] = {p.name: [] for p in parts}
    errors: List[str] = []
    hard_timeout = float(os.environ.get("VERIF_HARD_TIMEOUT", "900" if tier == "quick" else "14000"))

    def reap(block: bool) -> None:
        for item in list(running):
            proc, part, j, outp, started = item
            rc = proc.poll()
            if rc is None and time.time() - started > hard_timeout:
                proc.kill()
                rc = -9
                errors.append(f"shard {part.name}/{j} exceeded hard timeout: inconclusive")
            if rc is None:
                continue
            running.remove(item)
            if os.path.exists(outp):
                with open(outp) as f:
                    results[part.name].append(json.load(f))
                os.unlink(outp)
            else:
                errors.append(f"shard {part.name}/{j} produced no output (rc={rc})")
        if block and running:
            time.sleep(0.05)

    while pending or running:
        while pending and len(running) < MAXPROC:
            part, j, outp = pending.pop(0)
            proc = subprocess.Popen(
                [sys.executable, "-m", "vt.run", "--shard", pid, part.name, str(j), str(part.shards), tier, str(seed), outp],
                cwd=ROOT, env=shard_env(env, part, j), stdout=subprocess.DEVNULL,
                stderr=subprocess.DEVNULL if part.kind == "covguided" else None)        # libFuzzer / atheris chatter; shard problems travel in the shard's output file
            running.append((proc, part, j, outp, time.time()))
        reap(True)
    try:
        os.rmdir(tmpdir)
        os.rmdir(os.path.dirname(tmpdir))
    except OSError:
        pass

    # 4. merge
    evaluations = skipped = nontrivial_evals = 0
    nontrivial = set()
    classes: Dict[str, int] = {}
    clause_checked: Dict[str, int] = {}
    counters: Dict[str, int] = {}
    known_hits: Dict[str, int] = {}
    samples: List[Any] = []
    per_part: Dict[str, Any] = {}
    failures: Dict[str, Dict[str, Any]] = {}
    for part in parts:
        pe = 0
        pn = set()
        for r in results[part.name]:
            evaluations += r["evaluations"]
            pe += r["evaluations"]
            skipped += r["skipped"]
            nontrivial_evals += r["nontrivial_evals"]
            nontrivial.update(part.name + ":" + h for h in r["nontrivial"])
            pn.update(r["nontrivial"])
            for k, v in r["classes"].items():
                classes[k] = classes.get(k, 0) + v
            for k, v in r["clause_checked"].items():
                clause_checked[k] = clause_checked.get(k, 0) + v
            for k, v in r["counters"].items():
                counters[k] = counters.get(k, 0) + v
            for k, v in r["known_hits"].items():
                known_hits[k] = known_hits.get(k, 0) + v
            for s in r["samples"]:
                if sum(1 for x in samples if x.get("part") == part.name) < 3:
                    s = dict(s)
                    s["part"] = part.name
                    samples.append(s)
            for cl, fl in r["failures"].items():
                fl = dict(fl)
                fl["part"] = part.name
                prev = failures.get(cl)
                if prev is None or len(canon(fl["case"])) < len(canon(prev["case"])):
                    failures[cl] = fl
            errors.extend(r["errors"])
        per_part[part.name] = {"kind": part.kind, "shards": part.shards, "evaluations": pe,
                               "distinct_nontrivial": len(pn), "exhaustive": part.exhaustive}

    for cl, fl in sorted(failures.items()):
        path = write_replay(pid, fl, seed, tier, fl.get("part", "?"))
        print(f"  {cl}: {fl.get('detail')}")
        violations.append(path)

    wall = time.time() - t0
    if not samples:
        samples = [{"note": "no non-trivial passing case recorded"}]
    ev = {
        "property_id": pid,
        "tier": tier,
        "seed": seed,
        "level": "exploration",
        "coverage": {
            "evaluations": evaluations,
            "distinct_nontrivial": len(nontrivial),
            "rule": mod.RULE,
            "samples": json.loads(canon(samples)),
            "nontrivial_evaluations": nontrivial_evals,
            "classes": dict(sorted(classes.items())),
            "clauses_checked": dict(sorted(clause_checked.items())),
            "measurements": dict(sorted(counters.items())),
            "parts": per_part,
            "exhaustive": bool(parts) and all(p.exhaustive for p in parts),
            "exhaustive_parts": [p.name for p in parts if p.exhaustive],
            "known_finding_hits": known_hits,
            "known_findings_reported": known_lines,
            "regress_replayed": len(regress_files),
            "regress_passed": regress_ok,
            "skipped_after_soft_deadline": skipped,
            "notes": notes,
            "harness_errors": errors[:5],
        },
        "assumptions": list(getattr(mod, "ASSUMPTIONS", [])),
        "wall_s": round(wall, 2),
        "violations": len(violations),
    }
    os.makedirs(os.path.join(ROOT, "evidence"), exist_ok=True)
    with open(os.path.join(ROOT, "evidence", f"{pid}.json"), "w") as f:
        json.dump(ev, f, indent=1, sort_keys=False)
        f.write("\n")

    for line in known_lines:
        print(line)
    print(f"{pid} {tier} seed={seed}: evaluations={evaluations} distinct_nontrivial={len(nontrivial)} "
          f"known_hits={sum(known_hits.values())} regress={regress_ok}/{len(regress_files)} wall={wall:.1f}s")
    if violations:
        for p in violations:
            print(f"VIOLATION property={pid} replay={p}")
        return 1
    if errors:
        for e in errors[:5]:
            print("HARNESS-ERROR:", e, file=sys.stderr)
        return 2
    if evaluations == 0:
        print("HARNESS-ERROR: nothing evaluated", file=sys.stderr)
        return 2
    return 0


def selftest() -> int:
    import logging

    logging.disable(logging.CRITICAL)
    bad = 0
    for pid in ALL:
        try:
            mod = load_mod(pid)
        except ModuleNotFoundError:
            continue
        try:
            mod.parts("quick")
            for c in getattr(mod, "SELFTEST_CASES", []):
                mod.run_case(c)
            print("selftest", pid, "ok")
        except BaseException:  # noqa: BLE001
            bad += 1
            print("selftest", pid, "FAILED\n", traceback.format_exc())
    return 2 if bad else 0


def main() -> int:
    a = sys.argv[1:]
    if not a or a[0] in ("-h", "--help"):
        print(__doc__)
        return 0
    if a[0] == "--shard":
        return shard_main(a[1:])
    if a[0] == "--replay":
        return replay_main(a[1])
    if a[0] == "--selftest":
        return selftest()
    if a[0] == "--list":
        print("\n".join(ALL))
        return 0
    pid = a[0].upper()
    tier = a[1] if len(a) > 1 else os.environ.get("VERIF_TIER", "quick")
    if tier not in ("quick", "thorough"):
        tier = "quick"
    try:
        return check_main(pid, tier)
    except SystemExit:
        raise
    except BaseException:  # noqa: BLE001
        print("HARNESS-ERROR:", traceback.format_exc(), file=sys.stderr)
        return 2


if __name__ == "__main__":
    sys.exit(main())
