"""Importable but never imported by the checks: importing it leaves a marker (C20.c)."""
import builtins

builtins._vt_trap_imported = True  # type: ignore[attr-defined]


class Boom(Exception):
    pass


def run(*a, **k):
    builtins._vt_trap_called = True  # type: ignore[attr-defined]
