"""Registered in sys.modules through importlib.util.LazyLoader by the C20 traps: its code runs (= the module gets imported) the moment
anything reads an attribute of the module object.  Running it leaves a marker."""
import builtins

builtins._vt_trap_imported = True  # type: ignore[attr-defined]


class Boom(Exception):
    pass
