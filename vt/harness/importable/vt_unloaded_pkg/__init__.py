"""Planted for C20: an importable package that is NOT loaded.  Importing it (which also happens when somebody merely
asks importlib for the spec of one of its submodules) leaves a marker."""
import builtins

builtins._vt_trap_imported = True  # type: ignore[attr-defined]
