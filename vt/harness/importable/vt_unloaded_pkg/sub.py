"""Planted for C20: submodule of the unloaded package."""
import builtins

builtins._vt_trap_imported = True  # type: ignore[attr-defined]


class Boom(Exception):
    pass
