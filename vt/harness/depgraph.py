"""Generated dependency-graph programs (C06, C12): recipes -> exec'd source, so that inspect.signature,
get_type_hints and taskiq_dependencies.DependencyGraph see real functions.

node recipe: {"style": "sync"|"async"|"gen"|"agen"|"cm"|"acm", "ctx": bool, "sleep": float,
              "fail": None|"before"|"after", "swallow": bool, "deps": [[j, use_cache], ...]}   (j < own index: a DAG)
Every node logs through LOG(kind, node_index, *payload):
   ("open", i) on entry, ("echo", i, task_id, arg0, who) if it takes the Context, ("saw", i, ExcName) when an exception is
   thrown into it at its yield, ("close", i) in its finally (yielding styles only).
"""
from __future__ import annotations

import sys
import types
from typing import Any, Callable, Dict, List

YIELDING = ("gen", "agen", "cm", "acm")
ASYNC = ("async", "agen", "acm")
_COUNTER = [0]


def node_source(i: Any, nd: Dict[str, Any]) -> str:
    ident = repr(i)
    params = [f"d{j}=TaskiqDepends(n{j}, use_cache={bool(uc)})" for j, uc in nd["deps"]]
    if nd.get("ctx"):
        params.append("ctx: Context = TaskiqDepends()")
    st_ = nd["style"]
    is_async = st_ in ASYNC
    pre = f"    LOG('open', {ident})\n"
    if is_async and nd.get("sleep"):
        pre += f"    await asyncio.sleep({nd['sleep']})\n"
    if nd.get("ctx"):
        pre += f"    LOG('echo', {ident}, ctx.message.task_id, ctx.message.args[0] if ctx.message.args else None, ctx.message.labels.get('who'))\n"
    if nd.get("fail") == "before":
        pre += f"    raise {nd.get('fail_exc') or 'RuntimeError'}('dep{i} failed before yield')\n"
    head = f"{'async ' if is_async else ''}def n{i}({', '.join(params)}):\n"
    if st_ in ("sync", "async"):
        return head + pre + f"    return {ident}"
    deco = {"gen": "", "agen": "", "cm": "@contextlib.contextmanager\n", "acm": "@contextlib.asynccontextmanager\n"}[st_]
    if nd.get("affine"):
        # a dependency whose teardown belongs to the task / context that opened it: a ContextVar token (the same holds for an anyio
        # cancel scope or task group held around the yield) - reset() in another context raises ValueError
        pre += f"    _tok = SCOPE.set({ident})\n"
    body = (f"    try:\n        yield {ident}\n    except BaseException as e:\n        LOG('saw', {ident}, type(e).__name__)\n"
            + ("        pass\n" if nd.get("swallow") else "        raise\n")
            + "    finally:\n"
            + ("        SCOPE.reset(_tok)\n" if nd.get("affine") else "")
            + (f"        await asyncio.sleep({nd['tsleep']})\n" if is_async and nd.get("tsleep") else "")      # a teardown that takes a while (flush, commit)
            + f"        LOG('close', {ident})\n")
    if nd.get("fail") == "after":
        body += f"        raise RuntimeError('dep{i} failed in teardown')\n"
    return deco + head + pre + body


def program_source(nodes: List[Dict[str, Any]], task_deps: List[Any], task: Dict[str, Any]) -> str:
    L = ["import asyncio, contextlib, contextvars, typing", "import pydantic", "from taskiq import TaskiqDepends, Context", "SCOPE = contextvars.ContextVar('scope', default=None)"]
    if task.get("box"):
        L.append("class Box(pydantic.BaseModel):\n    items: typing.List[int]\n\n    @pydantic.model_validator(mode='before')\n    @classmethod\n"
                 "    def _short_form(cls, v):\n        if isinstance(v, str):\n            return {'items': [int(x) for x in v.split(',')]}\n        return v")
    L.append("def whoami(ctx: Context = TaskiqDepends()):\n    return ctx.message.task_id")
    for i, nd in enumerate(nodes):
        L.append(node_source(i, nd))
    for ri, rep in enumerate(task.get("replacements") or []):
        # replacement dependencies (broker.dependency_overrides): same recipe, named r<k>, logged as node "r<k>"
        L.append(node_source(f"r{ri}", rep["node"]).replace(f"def nr{ri}(", f"def r{ri}("))
    own_ctx = not task.get("no_task_ctx")
    params = ["me=None", "slp=0"] + [f"d{j}=TaskiqDepends(n{j}, use_cache={bool(uc)})" for j, uc in task_deps] + (["ctx: Context = TaskiqDepends()"] if own_ctx else [])
    if task.get("box"):
        # an annotated parameter whose conversion builds a MUTABLE object from a scalar wire value ('1,2' -> model with a list):
        # every execution must get an object of its own
        params.append("box: Box = None")
    if task.get("who_dep"):
        # a parameter normally filled by a (cached) dependency that reads the Context; a caller may pass it explicitly
        params.append("who=TaskiqDepends(whoami)")
    if task.get("bag"):
        # an un-annotated parameter that receives a nested mutable value (a dict holding a list): nothing converts or copies it
        params.append("bag=None")
    tid = "ctx.message.task_id, ctx.message.args[0] if ctx.message.args else None, ctx.message.labels.get('who')" if own_ctx else "None, me, None"
    body = (f"    LOG('enter', 'task', {tid})\n"
            "    try:\n"
            + ("        if me == 0 and 'X-Taskiq-requeue' not in ctx.message.labels:\n            LOG('requeue', 'task')\n            await ctx.requeue()\n"
               if task.get("requeue_first") and own_ctx else "")
            + ("        if box is not None:\n            box.items.append(me)\n" if task.get("box") else "")
            + ("        LOG('who', 'task', who)\n" if task.get("who_dep") else "")
            + ("        if bag is not None:\n            bag['items'].append('x')\n" if task.get("bag") else "")
            + ("        if slp:\n            await PARK(slp)\n" if task.get("parked") else "        if slp:\n            await asyncio.sleep(slp)\n")
            + ("        if bag is not None:\n            LOG('bag', 'task', list(bag['items']))\n" if task.get("bag") else "")
            + ("        if box is not None:\n            LOG('box', 'task', list(box.items))\n" if task.get("box") else "")
            + ("        LOG('echo', 'task', ctx.message.task_id, ctx.message.args[0] if ctx.message.args else None, ctx.message.labels.get('who'))\n"
               "        LOG('labels', 'task', dict(ctx.message.labels))\n" if own_ctx else ""))
    kind = task.get("kind", "ret")
    if kind == "raise":
        body += "        raise ValueError('boom')\n"
    elif kind == "base":
        body += "        raise KeyboardInterrupt()\n"
    elif kind == "badstr":
        body += "        raise BadStr()\n"
    elif kind == "falsy":
        body += "        raise EmptyBatch()\n"
    elif kind == "nores":
        body += "        from taskiq.exceptions import NoResultError\n        raise NoResultError()\n"
    else:
        body += "        return me\n"
    body += "    finally:\n"
    if task.get("cleanup"):
        # asynchronous clean-up: after a cancellation (timeout) the function needs more loop iterations to finish
        body += f"        await asyncio.sleep({task['cleanup']})\n"
    body += "        LOG('exit', 'task')\n"
    L.append(f"async def task({', '.join(params)}):\n" + body)
    L.append("async def plain(me=None, slp=0, ctx: Context = TaskiqDepends()):\n"
             "    LOG('echo', 'plain', ctx.message.task_id, ctx.message.args[0] if ctx.message.args else None, ctx.message.labels.get('who'))\n"
             "    if slp:\n        await asyncio.sleep(slp)\n"
             "    LOG('echo', 'plain', ctx.message.task_id, ctx.message.args[0] if ctx.message.args else None, ctx.message.labels.get('who'))\n"
             "    return me")
    # a task without any dependency and with an optional keyword argument most messages leave out
    L.append("async def nodeps(me=None, slp=0, footer=None):\n"
             "    LOG('footer', 'nodeps', me, footer)\n"
             "    if slp:\n        await asyncio.sleep(slp)\n"
             "    LOG('footer', 'nodeps', me, footer)\n"
             "    return me")
    return "\n\n".join(L)


class BadStr(Exception):
    """a domain error whose text is looked up somewhere and the look-up fails: str(exc) raises."""

    def __str__(self) -> str:
        raise KeyError(7)


class EmptyBatch(Exception):
    """aggregate error with len(): raised without sub-errors the instance is falsy."""

    def __len__(self) -> int:
        return 0


_PARKED: Any = None


async def park(delay: float) -> None:
    """wait `delay` seconds on a future that nothing but the waiting coroutine references strongly (a reply kept in a weak registry);
    a garbage-collection pass runs right before the wake-up"""
    import asyncio
    import gc
    import weakref

    global _PARKED
    if _PARKED is None:
        _PARKED = weakref.WeakValueDictionary()
    loop = asyncio.get_running_loop()
    fut = loop.create_future()
    key = id(fut)
    _PARKED[key] = fut

    def wake() -> None:
        gc.collect()
        f = _PARKED.get(key)
        if f is not None and not f.done():
            f.set_result(None)

    loop.call_later(delay, wake)
    await fut


def build(nodes: List[Dict[str, Any]], task_deps: List[Any], task: Dict[str, Any], log: Callable[..., None]) -> Any:
    """exec the program in a throw-away module registered in sys.modules (the task decorator does
    sys.modules[func.__module__]); returns (module, task_function)."""
    _COUNTER[0] += 1
    name = f"vt_depgraph_{_COUNTER[0] % 64}"
    mod = types.ModuleType(name)
    mod.LOG = log  # type: ignore[attr-defined]
    mod.BadStr = BadStr  # type: ignore[attr-defined]
    mod.PARK = park  # type: ignore[attr-defined]
    mod.EmptyBatch = EmptyBatch  # type: ignore[attr-defined]
    sys.modules[name] = mod
    src = program_source(nodes, task_deps, task)
    exec(compile(src, f"<{name}>", "exec"), mod.__dict__)
    return mod, mod.task, src


def descendants(nodes: List[Dict[str, Any]], j: int) -> set:
    out: set = set()
    st_ = [j]
    while st_:
        x = st_.pop()
        for k, _ in nodes[x]["deps"]:
            if k not in out:
                out.add(k)
                st_.append(k)
    return out


def reachable(nodes: List[Dict[str, Any]], task_deps: List[Any]) -> set:
    out: set = set()
    for j, _ in task_deps:
        out.add(j)
        out |= descendants(nodes, j)
    return out


def uncached_with_yielding_descendant(nodes: List[Dict[str, Any]], task_deps: List[Any]) -> bool:
    """Signature of the open known finding C12-uncached-nested-order."""
    for lst in [task_deps] + [n["deps"] for n in nodes]:
        for j, uc in lst:
            if not uc and any(nodes[k]["style"] in YIELDING for k in descendants(nodes, j)):
                return True
    return False
