"""From command-line flags to the Receiver the worker process builds: parse with the real WorkerArgs.from_cli and run the
real taskiq.cli.worker.run.start_listen with a recording Receiver subclass (its listen() returns at once)."""
from __future__ import annotations

import asyncio
import signal
from typing import Any, Dict, List

from hypothesis import strategies as st

from taskiq import AsyncBroker
from taskiq.cli.worker.args import WorkerArgs
from taskiq.cli.worker.run import start_listen
from taskiq.receiver import Receiver

RECORDED: List[Dict[str, Any]] = []


class _Broker(AsyncBroker):
    async def kick(self, message: Any) -> None:
        return None

    async def listen(self):  # type: ignore[override]
        yield b""


def broker_factory() -> AsyncBroker:
    return _Broker()


class RecordingReceiver(Receiver):
    def __init__(self, **kw: Any) -> None:
        RECORDED.append({k: v for k, v in kw.items() if k not in ("broker", "executor")})
        super().__init__(**kw)

    async def listen(self, finish_event: asyncio.Event) -> None:  # type: ignore[override]
        return None


FLAGS = st.fixed_dictionaries({
    "ack_type": st.sampled_from([None, "when_received", "when_executed", "when_saved", "WHEN_EXECUTED"]),
    "max_async_tasks": st.one_of(st.none(), st.integers(1, 50)),
    "max_prefetch": st.one_of(st.none(), st.integers(0, 20)),
    "max_threadpool_threads": st.one_of(st.none(), st.none(), st.integers(1, 6)),
    "no_parse": st.booleans(),
    "no_propagate_errors": st.booleans(),
    "max_tasks_per_child": st.one_of(st.none(), st.integers(0, 500)),
    "wait_tasks_timeout": st.one_of(st.none(), st.sampled_from([0, 0.0, 0.5, 2.0, 30.0])),
    "max_fails": st.one_of(st.none(), st.integers(-1, 5)),
    "workers": st.one_of(st.none(), st.integers(1, 4)),
    "via_api": st.sampled_from([False, False, True]),     # taskiq.api.run_receiver_task instead of the command line
    "reverse_order": st.booleans(),                        # the value options given in the opposite order on the command line
})


def argv_of(flags: Dict[str, Any]) -> List[str]:
    a = ["vt.harness.cliwire:broker_factory", "--receiver", "vt.harness.cliwire:RecordingReceiver"]
    if flags.get("ack_type"):
        a += ["--ack-type", flags["ack_type"]]
    names = ("max_async_tasks", "max_prefetch", "max_tasks_per_child", "wait_tasks_timeout", "max_fails", "workers", "max_threadpool_threads")
    for name in (reversed(names) if flags.get("reverse_order") else names):
        if flags.get(name) is not None:
            a += ["--" + name.replace("_", "-"), str(flags[name])]
    if flags.get("no_parse"):
        a.append("--no-parse")
    if flags.get("no_propagate_errors"):
        a.append("--no-propagate-errors")
    return a


def expected(flags: Dict[str, Any]) -> Dict[str, Any]:
    """Documented meaning of the flags (docs/guide/cli.md, --help texts) in terms of Receiver parameters."""
    return {
        "ack_type": (flags.get("ack_type") or "when_saved").lower(),
        "max_async_tasks": flags["max_async_tasks"] if flags.get("max_async_tasks") is not None else 100,
        "max_prefetch": flags["max_prefetch"] if flags.get("max_prefetch") is not None else 0,
        "validate_params": not flags.get("no_parse"),
        "propagate_exceptions": not flags.get("no_propagate_errors"),
        "max_tasks_to_execute": flags.get("max_tasks_per_child"),
        "wait_tasks_timeout": flags.get("wait_tasks_timeout"),
    }


def receiver_kwargs(flags: Dict[str, Any]) -> Dict[str, Any]:
    args = WorkerArgs.from_cli(argv_of(flags))
    handlers = {s: signal.getsignal(s) for s in (signal.SIGINT, signal.SIGTERM, signal.SIGHUP)}
    RECORDED.clear()
    try:
        start_listen(args)
    finally:
        for s, h in handlers.items():
            signal.signal(s, h)
        asyncio.set_event_loop(None)
    if len(RECORDED) != 1:
        raise AssertionError(f"start_listen built {len(RECORDED)} receivers")
    got = dict(RECORDED[0])
    got["ack_type"] = getattr(got.get("ack_type"), "value", got.get("ack_type"))
    got["_args_max_fails"] = args.max_fails
    got["_args_workers"] = args.workers
    return got


def api_receiver_kwargs(flags: Dict[str, Any]) -> Dict[str, Any]:
    """The programmatic way to start a worker: taskiq.api.run_receiver_task(broker, ...) with the same settings."""
    from taskiq.acks import AcknowledgeType
    from taskiq.api import run_receiver_task

    class Once(RecordingReceiver):
        async def listen(self, finish_event: asyncio.Event) -> None:  # type: ignore[override]
            raise asyncio.CancelledError      # ends run_receiver_task's restart loop

    kw: Dict[str, Any] = {}
    if flags.get("ack_type"):
        kw["ack_time"] = AcknowledgeType(flags["ack_type"].lower())
    for name in ("max_async_tasks", "max_prefetch"):
        if flags.get(name) is not None:
            kw[name] = flags[name]
    if flags.get("no_parse"):
        kw["validate_params"] = False
    if flags.get("no_propagate_errors"):
        kw["propagate_exceptions"] = False
    RECORDED.clear()

    async def go() -> None:
        try:
            await run_receiver_task(broker_factory(), receiver_cls=Once, **kw)
        except asyncio.CancelledError:
            pass

    asyncio.run(go())
    if len(RECORDED) != 1:
        raise AssertionError(f"run_receiver_task built {len(RECORDED)} receivers")
    got = dict(RECORDED[0])
    ack = got.get("ack_type")
    got["ack_type"] = getattr(ack, "value", ack) or "when_saved"
    return got


def check(flags: Dict[str, Any], keys: List[str], clause: str, out: Any) -> None:
    if flags.get("via_api"):
        keys = [k for k in keys if k in ("ack_type", "max_async_tasks", "max_prefetch", "validate_params", "propagate_exceptions")]
        try:
            got = api_receiver_kwargs(flags)
        except BaseException as e:  # noqa: BLE001
            out.add(clause, f"run_receiver_task(...) with {flags}: failed with {type(e).__name__}: {e}")
            return
        exp = expected(flags)
        for k in keys:
            if got.get(k) != exp[k] or type(got.get(k)) is not type(exp[k]):
                out.add(clause, f"run_receiver_task(... {flags}) builds the receiver with {k}={got.get(k)!r}, the arguments mean {exp[k]!r}")
        return
    try:
        got = receiver_kwargs(flags)
    except BaseException as e:  # noqa: BLE001
        out.add(clause, f"taskiq worker {' '.join(argv_of(flags)[3:])}: start-up failed with {type(e).__name__}: {e}")
        return
    exp = expected(flags)
    for k in keys:
        g, e = got.get(k), exp[k]
        if k == "max_tasks_to_execute" and not g and not e:
            continue        # 0 and None both mean "no limit"
        if k == "wait_tasks_timeout" and g is not None and e is not None and float(g) == float(e):
            continue
        if g != e or type(g) is not type(e):
            out.add(clause, f"`taskiq worker {' '.join(argv_of(flags)[3:])}` builds the receiver with {k}={got.get(k)!r}, the flags mean {exp[k]!r}")
