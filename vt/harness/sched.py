"""Scheduler harness (DESIGN 2.3): controlled wall clock + scripted sources + recording broker,
running the real `run_scheduler_loop` on the virtual-time loop."""
from __future__ import annotations

import asyncio
import datetime as dtm
from typing import Any, Dict, List, Optional

import taskiq.cli.scheduler.run as R
from taskiq import AsyncBroker, ScheduledTask, ScheduleSource, TaskiqScheduler
from taskiq.schedule_sources import LabelScheduleSource

from vt.core.vloop import Deadlock, VirtualTimeLoop
from vt.harness import clock

MIN_US = 60 * 10**6


class KickBroker(AsyncBroker):
    def __init__(self, now_us, latencies: List[float], fail: set) -> None:
        super().__init__()
        self.now_us = now_us
        self.latencies = latencies or [0.0]
        self.fail = fail
        self.n = 0
        self.kicks: List[Dict[str, Any]] = []

    async def kick(self, message: Any) -> None:
        k = self.n
        self.n += 1
        m = self.formatter.loads(message.message)
        rec = {"t": self.now_us(), "n": k, "tag": m.args[0] if m.args else None, "sid": message.labels.get("schedule_id"),
               "task": message.task_name, "ok": k not in self.fail}
        self.kicks.append(rec)
        lat = self.latencies[k % len(self.latencies)]
        if lat:
            await asyncio.sleep(lat)
        rec["done"] = self.now_us()
        if k in self.fail:
            raise RuntimeError("send failed")

    async def listen(self):  # type: ignore[override]
        yield b""


class ScriptedSource(ScheduleSource):
    """Lists entries with stable ids; entry active on polls [add_at, remove_at); a sent one-shot is
    removed in post_send (the contract every real source follows)."""

    def __init__(self, name: str, entries: List[Dict[str, Any]], fail_polls: set, now_us, base_us: int) -> None:
        self.name = name
        self.entries = entries
        self.fail = fail_polls
        self.now_us = now_us
        self.base_us = base_us
        self.n = 0
        self.polls: List[Dict[str, Any]] = []
        self.sent: set = set()
        self.added: Dict[str, ScheduledTask] = {}     # schedules created through the public schedule_by_* API
        self.list_latency = 0.0
        self.cancel: set = set()
        self.hooks: List[Any] = []                    # (instant, hook, schedule id)
        self.live_list = False
        self._live: List[Any] = []
        self.post_fail: set = set()
        self.hook_kind = "sync"
        self.fail_exc = "message"
        self._k = 0

    async def add_schedule(self, schedule: ScheduledTask) -> None:
        self.added[schedule.schedule_id] = schedule

    async def pre_send(self, task: ScheduledTask) -> None:  # type: ignore[override]
        self.hooks.append((self.now_us(), "pre_send", task.schedule_id))
        if task.schedule_id in self.cancel:
            from taskiq.exceptions import ScheduledTaskCancelledError

            raise ScheduledTaskCancelledError

    def _task(self, e: Dict[str, Any]) -> ScheduledTask:
        if e["id"] in self.added:
            return self.added[e["id"]].model_copy()
        if "cron" in e:
            off = e.get("offset")
            co: Any = None
            if off:
                co = dtm.timedelta(microseconds=off["td_us"]) if "td_us" in off else off["zone"]
            expr = e["cron"]
            if e.get("repair_at") is not None and self._k >= e["repair_at"]:
                expr = "* * * * *"       # the broken expression was repaired (same schedule id, listed anew)
            return ScheduledTask(task_name="t", labels={}, args=[e["id"]], kwargs={}, cron=expr, cron_offset=co, schedule_id=e["id"])
        T = clock.from_us(self.base_us + e["t_off_us"])
        if e.get("naive"):
            T = T.replace(tzinfo=None)
        return ScheduledTask(task_name="t", labels={}, args=[e.get("tag", e["id"])], kwargs={}, time=T, schedule_id=e["id"])

    async def get_schedules(self) -> List[ScheduledTask]:
        k = self.n
        self.n += 1
        self._k = k
        failed = k in self.fail
        listed = []
        if not failed:
            for e in self.entries:
                if e["id"] in self.sent:
                    continue
                if e.get("add_at", 0) <= k and (e.get("remove_at") is None or k < e["remove_at"]):
                    listed.append(e["id"])
        self.polls.append({"t": self.now_us(), "k": k, "failed": failed, "listed": listed})
        if self.list_latency:
            await asyncio.sleep(self.list_latency)    # a source that needs I/O to answer
        self.polls[-1]["ret"] = self.now_us()
        if failed:
            # what a failing source raises: with a message, or bare (asyncio.wait_for's TimeoutError(), `raise ConnectionResetError`)
            raise {"bare_timeout": asyncio.TimeoutError, "bare_keyerror": KeyError, "bare_conn": ConnectionResetError}.get(self.fail_exc, lambda: RuntimeError("source down"))()
        by = {e["id"]: e for e in self.entries}
        if self.live_list:
            # a source that hands out its own internal list (not a copy) and edits it in place when a one-shot was sent
            self._live[:] = [self._task(by[i]) for i in listed]
            return self._live
        return [self._task(by[i]) for i in listed]

    def post_send(self, task: ScheduledTask) -> Any:
        """sync, or - as the hook's signature allows - a plain function handing back something to await: a coroutine ("deferred"),
        a lazy awaitable object that is not a coroutine ("awaitable": an ORM-style query), a Future ("future")"""
        kind = self.hook_kind
        if kind == "sync":
            return self._post_send(task)

        async def later() -> None:
            self._post_send(task)

        if kind == "deferred":
            return later()
        if kind == "future":
            return asyncio.ensure_future(later())
        return _Lazy(later())

    def _post_send(self, task: ScheduledTask) -> None:
        self.hooks.append((self.now_us(), "post_send", task.schedule_id))
        fails_now = task.schedule_id in self.post_fail
        self.post_fail.discard(task.schedule_id)
        if task.cron is None:
            self.sent.add(task.schedule_id)
            if self.live_list:
                self._live[:] = [t for t in self._live if t.schedule_id != task.schedule_id]
        if fails_now:
            raise RuntimeError("post_send bookkeeping failed")      # after the message has been sent


class _Lazy:
    """an awaitable that is neither a coroutine nor a Future; its work happens only when it is awaited"""

    def __init__(self, coro: Any) -> None:
        self.coro = coro

    def __await__(self) -> Any:
        return self.coro.__await__()


class RecLabelSource(LabelScheduleSource):
    def __init__(self, broker: AsyncBroker, now_us) -> None:
        super().__init__(broker)
        self.now_us = now_us
        self.name = "label"
        self.n = 0
        self.polls: List[Dict[str, Any]] = []

    async def get_schedules(self) -> List[ScheduledTask]:
        k = self.n
        self.n += 1
        t0 = self.now_us()
        res = await super().get_schedules()
        self.polls.append({"t": t0, "k": k, "failed": False, "listed": [s.args[0] for s in res if s.args], "ret": self.now_us()})
        return res


def run_sched(case: Dict[str, Any]) -> Dict[str, Any]:
    base_us = case["base_us"]
    loop = VirtualTimeLoop()
    loop.max_iterations = 400_000
    asyncio.set_event_loop(loop)
    loop.set_exception_handler(lambda l, c: None)

    def now_dt() -> dtm.datetime:
        return clock.from_us(base_us) + dtm.timedelta(seconds=loop.time())

    def now_us() -> int:
        return clock.to_us(now_dt())

    clock.install()
    clock.FakeDT.source = now_dt
    if case.get("local_zone"):
        clock.set_local(case["local_zone"])       # the scheduler process lives in a DST zone
    res: Dict[str, Any] = {"crashed": False, "deadlock": False, "loop_exc": None}
    try:
        b = KickBroker(now_us, case.get("latencies") or [0.0], set(case.get("kick_fail", ())))

        def t(tag: Any = None) -> None:
            return None

        t.__module__ = __name__
        srcs: List[Any] = []
        label_entries: List[Dict[str, Any]] = []
        for si, s in enumerate(case["sources"]):
            if s["kind"] == "label":
                label_entries = s["entries"]
        if label_entries:
            sched_label = []
            for e in label_entries:
                if "cron" in e:
                    ent = {"cron": e["cron"], "args": [e["id"]]}
                    off = e.get("offset")
                    if off:      # entries of one task may mix offsets: none, a timedelta, a zone name
                        ent["cron_offset"] = dtm.timedelta(microseconds=off["td_us"]) if "td_us" in off else off["zone"]
                    elif e.get("empty_offset") is not None:
                        ent["cron_offset"] = e["empty_offset"]       # "" / timedelta(0): the same as no offset
                    sched_label.append(ent)
                else:
                    T = clock.from_us(base_us + e["t_off_us"])
                    if e.get("naive"):
                        T = T.replace(tzinfo=None)
                    sched_label.append({"time": T, "args": [e["id"]]})
            b.register_task(t, task_name="t", schedule=sched_label)
            for rt in case.get("retime", ()):
                # the application edits an entry of the task's schedule label IN PLACE while the scheduler runs
                def _retime(rt: Dict[str, Any] = rt) -> None:
                    sched_label[rt["idx"]]["cron"] = rt["cron"]
                loop.call_later(rt["at_s"], _retime)
        else:
            b.register_task(t, task_name="t")
        for si, s in enumerate(case["sources"]):
            if s["kind"] == "label":
                srcs.append(RecLabelSource(b, now_us))
            else:
                src = ScriptedSource(f"s{si}", s["entries"], set(s.get("fail_polls", ())), now_us, base_us)
                src.list_latency = float(s.get("list_latency", 0.0))
                src.cancel = set(s.get("cancel", ()))
                src.live_list = bool(s.get("live_list"))
                src.post_fail = set(s.get("post_fail", ()))
                src.hook_kind = s.get("hook_kind", "sync")
                src.fail_exc = s.get("fail_exc", "message")
                srcs.append(src)
        sched = TaskiqScheduler(b, srcs)
        end_s = ((base_us // MIN_US + case["horizon_min"]) * MIN_US + 30 * 10**6 - base_us) / 1e6

        async def main() -> None:
            from taskiq.kicker import AsyncKicker
            from taskiq.scheduler.scheduled_task import CronSpec

            for src_, s_ in zip(srcs, case["sources"]):
                for e in s_["entries"]:
                    if not e.get("via_api") or s_["kind"] == "label":
                        continue
                    k = AsyncKicker("t", b, {}).with_schedule_id(e["id"])
                    if "spec" in e:     # schedule_by_cron with a CronSpec object (int or str fields)
                        off = e.get("offset")
                        co: Any = None
                        if off:
                            co = dtm.timedelta(microseconds=off["td_us"]) if "td_us" in off else off["zone"]
                        await k.schedule_by_cron(src_, CronSpec(offset=co, **e["spec"]), e["id"])
                    elif "cron" in e:
                        await k.schedule_by_cron(src_, e["cron"], e["id"])
                    else:
                        T = clock.from_us(base_us + e["t_off_us"])
                        await k.schedule_by_time(src_, T.replace(tzinfo=None) if e.get("naive") else T, e["id"])
            task = asyncio.ensure_future(R.run_scheduler_loop(sched))
            await asyncio.sleep(end_s)
            if task.done():
                res["crashed"] = True
                if not task.cancelled() and task.exception() is not None:
                    res["loop_exc"] = repr(task.exception())
            task.cancel()

        try:
            loop.run_until_complete(main())
        except Deadlock as exc:
            res["deadlock"] = True
            res["loop_exc"] = str(exc)
        res["kicks"] = b.kicks
        res["polls"] = {getattr(s, "name"): s.polls for s in srcs}
        res["hooks"] = {getattr(s, "name"): list(getattr(s, "hooks", [])) for s in srcs}
        return res
    finally:
        clock.FakeDT.source = None
        clock.uninstall()
        if case.get("local_zone"):
            clock.set_local()
        try:
            loop.max_iterations = 0
            pend = [x for x in asyncio.all_tasks(loop) if not x.done()]
            for x in pend:
                x.cancel()
            if pend:
                try:
                    loop.run_until_complete(asyncio.gather(*pend, return_exceptions=True))
                except BaseException:  # noqa: BLE001
                    pass
        finally:
            loop.close()
            asyncio.set_event_loop(None)
