"""Catalogue of exception classes and awkward argument values for C19 / C20 (importable module:
classes defined here are resolvable through sys.modules['vt.harness.excat'])."""
import dataclasses
import datetime
import decimal
import sys
import threading
import types


class ModErr(Exception):
    pass


class ModBase(BaseException):
    pass


class Outer:
    class Inner(ValueError):
        pass

    class Deeper:
        class Innermost(KeyError):
            pass


class TwoArgs(Exception):
    def __init__(self, a, b):
        super().__init__(f"{a}|{b}")
        self.a = a
        self.b = b


class KwOnly(Exception):
    def __init__(self, *, code=None):
        super().__init__(code)


class NoArgsKept(Exception):
    def __init__(self, *a):
        super().__init__()


class WithState(Exception):
    def __init__(self, msg):
        super().__init__(msg)
        self.lock = threading.Lock()


class DerivedKeyErr(KeyError):
    pass


class PickyInit(Exception):
    def __init__(self, a, b=2, *, strict=True):
        if not isinstance(a, str):
            raise TypeError("a must be str")
        super().__init__(a, b)


class ValueInit(Exception):
    """args differ from constructor arguments and the constructor rejects them with ValueError."""

    def __init__(self, n):
        if isinstance(n, str):
            raise ValueError("n must not be a string")
        super().__init__(str(n))


class PlainMixin:
    """an ordinary helper base class that is NOT an exception and happily accepts any constructor arguments."""

    def __init__(self, *a):
        self.mixin_args = a


class MixErr(PlainMixin, ValueError):
    """exception with a non-exception mixin FIRST in its MRO (class MixErr(SomeMixin, ValueError))."""


def make_local_mixin():
    class LocMix(PlainMixin, ValueError):
        pass

    return LocMix


class FalsyErr(Exception):
    """an aggregate error with len(): with no sub-errors the instance is falsy (bool(exc) is False)."""

    def __len__(self):
        return 0


class ValueEq(Exception):
    """value equality: two different objects of equal content compare equal (and hash alike)."""

    def __eq__(self, other):
        return type(other) is type(self) and other.args == self.args

    def __hash__(self):
        return hash(type(self))


@dataclasses.dataclass
class DataErr(Exception):
    """an ordinary dataclass exception: generated __eq__, and therefore unhashable."""

    code: object = None
    detail: object = None


def make_local():
    class Loc(ModErr):
        pass

    return Loc


def make_local_base():
    class LocB(Exception):
        def __init__(self, a, b=2):
            super().__init__(a)

    return LocB


Dyn = type("Dyn", (RuntimeError,), {"__module__": __name__})            # resolvable
DynHidden = type("DynHidden", (RuntimeError,), {"__module__": "nowhere.module"})  # module not loaded
DynNoModule = type("DynNoModule", (Exception,), {"__module__": None})              # a class that has no module at all
DynShadow = type("ModErr", (LookupError,), {"__module__": __name__})      # name resolves to a different class


class _CustomisedModule(types.ModuleType):
    """a fully imported module whose class was customised (the documented `sys.modules[__name__].__class__ = MyModule` idiom, here with
    a property): an ordinary, loaded module for every purpose"""

    @property
    def api_version(self):
        return "1.0"


_custom_mod = _CustomisedModule("vt_customised_mod")
sys.modules["vt_customised_mod"] = _custom_mod
CustomModErr = type("CustomModErr", (LookupError,), {"__module__": "vt_customised_mod"})
_custom_mod.CustomModErr = CustomModErr


class BadRepr:
    def __repr__(self):
        raise RuntimeError("no repr")

    def __str__(self):
        raise RuntimeError("no str")


class BadReprExc(Exception):
    def __repr__(self):
        raise RuntimeError("no repr")

    def __str__(self):
        raise RuntimeError("no str")


class BadReprSelf:
    """repr() and str() raise an exception that carries the object itself - printing THAT exception fails again."""

    def __repr__(self):
        raise ValueError(self)

    __str__ = __repr__


class SurrogateRepr:
    """an arbitrary (un-encodable) object whose text form contains a lone surrogate (a path-like object printing an undecodable file name raw)"""

    def __repr__(self):
        return "RawPath('report-\udcff.csv')"

    __str__ = __repr__


class StrSub(str):
    pass


SPECIAL = {
    "bytes": lambda: b"\xff\x00",
    "set": lambda: {1, 2},
    "complex": lambda: 1 + 2j,
    "datetime": lambda: datetime.datetime(2020, 1, 1),
    "decimal": lambda: decimal.Decimal("1.5"),
    "lambda": lambda: (lambda: 1),
    "lock": lambda: threading.Lock(),
    "generator": lambda: (i for i in range(2)),
    "badrepr": lambda: BadRepr(),
    "badrepr_self": lambda: BadReprSelf(),
    "nan": lambda: float("nan"),
    "inf": lambda: float("-inf"),
    "tuple": lambda: (1, (2, 3)),
    "intkey": lambda: {1: 2},
    "object": lambda: object(),
    "exception": lambda: ValueError("inner"),
    "exc_custom_ctor": lambda: TwoArgs("billing", 503),     # pickles, but cannot be unpickled (args != ctor args)
    "exc_kwonly": lambda: KwOnly(code=3),
    "class": lambda: int,
    "strsub": lambda: StrSub("abc"),
    "surrogate": lambda: "caf\udce9",
    "surrogate_repr": lambda: SurrogateRepr(),
    "surrogate_in_set": lambda: {"\udcff"},
    "surrogate_key": lambda: {"k\udcff": 1},
    "nul": lambda: "a\x00b",
    "bigint": lambda: -(2 ** 70),
}
