"""Trap objects for C20: a loaded module exposing recording callables / classes, and an importable
but unloaded module on sys.path whose import leaves a marker."""
from __future__ import annotations

import builtins
import functools
import os
import sys
import types
from typing import Any, List

CALLS: List[Any] = []
IMPORTABLE_DIR = os.path.join(os.path.dirname(os.path.abspath(__file__)), "importable")
if IMPORTABLE_DIR not in sys.path:
    sys.path.append(IMPORTABLE_DIR)

MOD = "vt_trapmod"


def _rec(tag: str):
    def f(*a: Any, **k: Any) -> Any:
        CALLS.append(tag)
        return ValueError("trap function result")   # even an exception-looking result must not be trusted

    f.__name__ = tag
    return f


class CallableObj:
    def __call__(self, *a: Any, **k: Any) -> Any:
        CALLS.append("callable_instance")
        return RuntimeError("x")


class ClassProxy:
    """A callable that is NOT a class but looks like an exception class to duck-typed checks: issubclass() accepts any
    object with a __bases__ tuple (lazy class proxies, mocks)."""

    __bases__ = (ValueError,)
    __name__ = "ValueError"

    def __call__(self, *a: Any, **k: Any) -> Any:
        CALLS.append("class_proxy")
        return ValueError("made by a proxy")


class NotExc:
    def __new__(cls, *a: Any, **k: Any) -> Any:
        CALLS.append("NotExc.__new__")
        return super().__new__(cls)

    def __init__(self, *a: Any, **k: Any) -> None:
        CALLS.append("NotExc.__init__")

    @staticmethod
    def static(*a: Any, **k: Any) -> Any:
        CALLS.append("NotExc.static")

    @classmethod
    def clsm(cls, *a: Any, **k: Any) -> Any:
        CALLS.append("NotExc.clsm")

    class InnerExc(KeyError):
        pass

    class InnerNot:
        def __init__(self, *a: Any, **k: Any) -> None:
            CALLS.append("InnerNot.__init__")


class MetaTrap(type):
    def __call__(cls, *a: Any, **k: Any) -> Any:
        CALLS.append("MetaTrap.__call__")
        return super().__call__(*a, **k)


class LooksLikeExc(metaclass=MetaTrap):
    """Not a BaseException subclass although named like one."""
    __name__ = "ValueError"


class Nosy:
    """A plain object (lazy settings value, ORM column, mock) whose every special method is user code: looking at it closely -
    printing, comparing, truth-testing, iterating it - runs that code."""

    def __repr__(self) -> str:
        CALLS.append("Nosy.__repr__")
        return "<Nosy>"

    def __str__(self) -> str:
        CALLS.append("Nosy.__str__")
        return "nosy"

    def __eq__(self, other: Any) -> bool:
        CALLS.append("Nosy.__eq__")
        return False

    def __ne__(self, other: Any) -> bool:
        CALLS.append("Nosy.__ne__")
        return True

    __hash__ = None  # type: ignore[assignment]

    def __bool__(self) -> bool:
        CALLS.append("Nosy.__bool__")
        return True

    def __len__(self) -> int:
        CALLS.append("Nosy.__len__")
        return 1

    def __iter__(self) -> Any:
        CALLS.append("Nosy.__iter__")
        return iter(())

    def __contains__(self, item: Any) -> bool:
        CALLS.append("Nosy.__contains__")
        return False

    def __format__(self, spec: str) -> str:
        CALLS.append("Nosy.__format__")
        return "nosy"

    def method(self, *a: Any, **k: Any) -> Any:
        CALLS.append("Nosy.method")


class NosyMeta(type):
    def __repr__(cls) -> str:
        CALLS.append("NosyMeta.__repr__")
        return "<NosyClass>"

    def __eq__(cls, other: Any) -> bool:
        CALLS.append("NosyMeta.__eq__")
        return False

    def __hash__(cls) -> int:
        return 11

    def __bool__(cls) -> bool:
        CALLS.append("NosyMeta.__bool__")
        return True


class NosyClass(metaclass=NosyMeta):
    """a class (not an exception) whose metaclass prints / compares with user code"""


class GoodExc(Exception):
    pass


class GoodBase(BaseException):
    pass


class CtorFails(Exception):
    def __init__(self, *a: Any) -> None:
        raise RuntimeError("ctor always fails")


def install() -> types.ModuleType:
    m = types.ModuleType(MOD)
    sub = types.ModuleType(MOD + ".sub")
    for name, obj in dict(
        func=_rec("func"), lam=(lambda *a, **k: CALLS.append("lambda")), callable_instance=CallableObj(),
        partial=functools.partial(_rec("partial"), 1), class_proxy=ClassProxy(), NotExc=NotExc, LooksLikeExc=LooksLikeExc, GoodExc=GoodExc, GoodBase=GoodBase,
        CtorFails=CtorFails, exc_instance=ValueError("i am an instance"), number=5, none=None, builtin_eval=eval, builtin_print=print,
        type_type=type, object_type=object, exc_type_alias=KeyError, sub=sub,
        nosy=Nosy(), NosyClass=NosyClass,
    ).items():
        setattr(m, name, obj)
    m.nosy_partial = functools.partial(m.nosy.method, 1)  # type: ignore[attr-defined]
    sub.func = _rec("sub.func")  # type: ignore[attr-defined]
    sub.SubExc = type("SubExc", (LookupError,), {"__module__": MOD + ".sub"})  # type: ignore[attr-defined]
    sys.modules[MOD] = m
    sys.modules[MOD + ".sub"] = sub

    # a loaded package that serves some of its names lazily (PEP 562 module __getattr__): asking it for `LazyExc`,
    # `lazy_func` or `lazy_sub` imports the planted unloaded module; those names are NOT in the module namespace
    lazy = types.ModuleType(MOD + "_lazy")

    def __getattr__(name: str) -> Any:
        if name in ("LazyExc", "lazy_func", "lazy_sub"):
            CALLS.append("lazy.__getattr__:" + name)
            import importlib

            mod = importlib.import_module("vt_unloaded_trap")
            return {"LazyExc": getattr(mod, "Boom", None), "lazy_func": getattr(mod, "run", None), "lazy_sub": mod}[name]
        raise AttributeError(name)

    lazy.__getattr__ = __getattr__  # type: ignore[assignment]
    lazy.__all__ = ["LazyExc", "lazy_func", "lazy_sub", "Eager"]  # type: ignore[attr-defined]
    lazy.Eager = GoodExc  # type: ignore[attr-defined]
    sys.modules[MOD + "_lazy"] = lazy

    # the same, but as an instance of a ModuleType SUBCLASS whose class serves attributes lazily (six.moves, apipkg, modules
    # that reassign __class__): class-level __getattr__ and a property
    class LazyModule(types.ModuleType):
        def __getattr__(self, name: str) -> Any:
            if name in ("LazyExc", "lazy_func"):
                CALLS.append("lazysub.__getattr__:" + name)
                import importlib

                mod = importlib.import_module("vt_unloaded_trap")
                return getattr(mod, "Boom" if name == "LazyExc" else "run", None)
            raise AttributeError(name)

        @property
        def computed(self) -> Any:
            CALLS.append("lazysub.property")
            return ValueError

    lazysub = LazyModule(MOD + "_lazysub")
    lazysub.Eager = GoodExc  # type: ignore[attr-defined]
    sys.modules[MOD + "_lazysub"] = lazysub
    return m


LAZY_NAME = "vt_lazy_unloaded"


def is_unexecuted_module(obj: Any) -> bool:
    """a module object whose code has not run yet (importlib.util.LazyLoader): reading ANY attribute of it imports it.
    Decided from type() alone - no attribute of the object is touched."""
    return isinstance(obj, types.ModuleType) and type(obj).__getattribute__ is not types.ModuleType.__getattribute__


def arm_lazy() -> None:
    """(re-)register the planted module the way `importlib.util.LazyLoader` users do: present in sys.modules and as an attribute of the
    loaded trap module, its code not executed yet."""
    import importlib.util

    spec = importlib.util.spec_from_file_location(LAZY_NAME, os.path.join(IMPORTABLE_DIR, LAZY_NAME + ".py"))
    loader = importlib.util.LazyLoader(spec.loader)  # type: ignore[union-attr,arg-type]
    spec.loader = loader  # type: ignore[union-attr]
    mod = importlib.util.module_from_spec(spec)  # type: ignore[arg-type]
    loader.exec_module(mod)          # lazy: nothing runs here
    sys.modules[LAZY_NAME] = mod
    host = sys.modules.get(MOD)
    if host is not None:
        vars(host)["lazy_mod"] = mod


def reset() -> None:
    CALLS.clear()
    arm_lazy()
    for n in ("_vt_trap_imported", "_vt_trap_called"):
        if hasattr(builtins, n):
            delattr(builtins, n)


def marker() -> bool:
    return bool(getattr(builtins, "_vt_trap_imported", False) or getattr(builtins, "_vt_trap_called", False))
