"""Fake OS for the process manager (DESIGN 2.4).

`taskiq.cli.worker.process_manager.{Process,Queue,Event,sleep,signal,os,current_process}` are rebound to
fakes for the duration of a run.  Fake processes: new -> alive -> zombie -> reaped (a dead child is a zombie
until is_alive()/join() polls it; os.kill on a zombie succeeds, on a reaped or foreign pid raises
ProcessLookupError - POSIX behaviour).  The fake sleep(1) is the tick driver.

History (JSON): list of ticks; tick = {"die": [slots], "exit0": [slots that exit with status 0], "sig": ["HUP"|"INT"|"TERM"|"FC", ...],
                                      "mid": [[k, sig], ...]}   # deliver sig at the k-th fake call of the tick
plus "startup_deaths": indexes (in order of Process.start() calls) of processes that exit during start-up, and
"slow": [[start index, seconds]] - processes that need that long to exit after terminate() (a worker finishing
in-flight tasks): they stay alive ("terminating") until joined without timeout or until the time has passed.

Trace events: ["tick", n] ["start", slot, pid] ["die", slot, pid] ["terminate", slot, pid, state]
              ["join", slot, pid, state_before, state_after, timeout] ["exit", slot, pid] ["kill", pid, sig, state] ["sig", name] ["return", value]
"""
from __future__ import annotations

import types
from typing import Any, Dict, List

import taskiq.cli.worker.process_manager as pm
from taskiq.cli.worker.args import WorkerArgs

from vt.core.engine import HarnessError

for _n in ("Process", "Queue", "Event", "sleep", "signal", "os", "ProcessManager", "schedule_workers_reload"):
    if not hasattr(pm, _n):
        raise HarnessError(f"taskiq.cli.worker.process_manager no longer exposes `{_n}`")

# `current_process` is rebound only if the module uses it (the signal handlers consult it to tell the manager from
# its forked workers); how the code identifies the manager process is its own business.
_ORIG = {n: getattr(pm, n) for n in ("Process", "Queue", "Event", "sleep", "signal", "os", "current_process") if hasattr(pm, n)}
SIGNUM = {"HUP": 1, "INT": 2, "TERM": 15}


class Stop(BaseException):
    pass


class Hang(BaseException):
    """The manager made an implausible number of OS calls without sleeping: it spins."""


class FQ:
    def __init__(self, *a: Any) -> None:
        self.q: List[Any] = []
        self.w: Any = None

    def put(self, x: Any) -> None:
        self.q.append(x)

    def get(self) -> Any:
        if self.w is not None:
            self.w.point("q.get")
        return self.q.pop(0)

    def empty(self) -> bool:
        if self.w is not None:
            self.w.point("q.empty")
        return not self.q


class FE:
    def wait(self, t: Any = None) -> bool:
        return False


class FP:
    def __init__(self, w: "World", name: str) -> None:
        self.w = w
        self.name = name
        self.slot = int(name.split("-")[1])
        self.pid: Any = None
        self.uid: Any = None
        self.state = "new"            # new -> alive -> (terminating ->) zombie -> reaped
        self.shutdown_s = 0.0         # seconds the process needs to exit after terminate()
        self.remaining = 0.0
        self.code = 1                 # exit status once dead (0 = the worker function returned / sys.exit(0))

    @property
    def exitcode(self) -> Any:
        return None if self.state in ("new", "alive", "terminating") else self.code

    def start(self) -> None:
        self.w.point("start")
        if self.w.pid_pool:
            # multiprocessing.Process.start() first reaps every finished child of this process (process._cleanup()): their
            # numbers become free for the process being started
            for q in self.w.procs:
                if q.state == "zombie":
                    q.state = "reaped"
                    self.w.freed.append(q.pid)
        self.uid = self.w.pid          # unique per process incarnation: what the trace talks about
        self.w.pid += 1
        self.pid = self.w.alloc_pid(self.uid)     # what the OS hands out: may be a number an earlier, reaped process had
        self.state = "alive"
        self.w.trace.append(["start", self.slot, self.uid])
        k = self.w.nstart
        self.w.nstart += 1
        self.shutdown_s = float(self.w.slow.get(k, 0.0))
        if k in self.w.startup_deaths:
            self.state = "zombie"
            self.w.trace.append(["die", self.slot, self.uid])

    def is_alive(self) -> bool:
        self.w.point("is_alive")
        if self.state == "zombie":
            self.state = "reaped"
            self.w.freed.append(self.pid)
        return self.state in ("alive", "terminating")

    def terminate(self) -> None:
        self.w.point("terminate")
        before = self.state
        if self.state == "alive":
            if self.shutdown_s > 0:
                self.state = "terminating"      # SIGTERM received, still finishing its work
                self.remaining = self.shutdown_s
            else:
                self.state = "zombie"
        self.w.trace.append(["terminate", self.slot, self.uid, before, self.state])

    def join(self, timeout: Any = None) -> None:
        self.w.point("join")
        before = self.state
        if self.state == "terminating":
            self.w.mono += self.remaining if (timeout is None or float(timeout) >= self.remaining) else float(timeout)     # waiting takes time
            if timeout is None or float(timeout) >= self.remaining:
                self.state = "reaped"           # waited until it exited
                self.w.freed.append(self.pid)
            else:
                self.remaining -= float(timeout)
        elif self.state == "zombie":
            self.state = "reaped"
            self.w.freed.append(self.pid)
        self.w.trace.append(["join", self.slot, self.uid, before, self.state, timeout])


class World:
    def __init__(self, history: List[Dict[str, Any]], startup_deaths: List[int]) -> None:
        self.h = history
        self.tick = 0
        self.procs: List[FP] = []
        self.trace: List[Any] = []
        self.handlers: Dict[int, Any] = {}
        self.pid = 100
        self.startup_deaths = set(startup_deaths)
        self.slow: Dict[int, float] = {}
        self.nstart = 0
        self.calls = 0
        self.mid: Dict[int, List[str]] = {}
        self.boot: List[Any] = []
        self.wall_off = 1.7e9         # wall clock = virtual clock + offset; the offset is stepped by "wall_step" events (NTP correction, VM resume)
        self.mono = 1000.0            # the virtual clock behind sleep(), join() and - if the module consults them - monotonic() / time()
        self.queue: Any = None
        self.pid_pool = 0
        self.last_pid = 4999
        self.freed: List[Any] = []
        self.vanish: set = set()
        self.call_limit = 3000

    def alloc_pid(self, uid: int) -> int:
        if not self.pid_pool:
            return uid
        n = self.pid_pool
        in_use = {p.pid for p in self.procs if p.state in ("alive", "terminating", "zombie")}
        # any free number is a legal answer of the OS; the most recently freed one first (the worst case for code that
        # remembers process ids), then cyclic allocation
        while self.freed:
            cand = self.freed.pop()
            if cand is not None and cand not in in_use and 5000 <= cand < 5000 + n:
                self.last_pid = cand
                return cand
        for k in range(1, n + 1):          # cyclic allocation like the kernel's, wrapping at pid_max
            cand = 5000 + (self.last_pid - 5000 + k) % n
            if cand not in in_use:
                self.last_pid = cand
                return cand
        return uid

    def deliver(self, s: str) -> None:
        self.trace.append(["sig", s])
        if s == "FC":
            pm.schedule_workers_reload(self.queue)
        else:
            self.handlers[SIGNUM[s]](SIGNUM[s], None)

    def point(self, what: str) -> None:
        """A fake call = a point at which an asynchronous signal may be delivered."""
        k = self.calls
        self.calls += 1
        if k > self.call_limit:
            raise Hang()
        sigs = self.mid.pop(k, None)
        if sigs:
            for s in sigs:
                self.deliver(s)

    def sleep(self, s: Any) -> None:
        if isinstance(s, (int, float)) and s < 0:
            raise ValueError("sleep length must be non-negative")      # what time.sleep() does
        if self.tick >= len(self.h):
            raise Stop()
        self.mono += float(s) if isinstance(s, (int, float)) else 1.0
        ev = self.h[self.tick]
        self.tick += 1
        self.trace.append(["tick", self.tick])
        self.wall_off += float(ev.get("wall_step", 0) or 0)
        for p in self.procs:
            if p.state == "terminating":
                p.remaining -= 1.0
                if p.remaining <= 0:
                    p.state = "zombie"
                    self.trace.append(["exit", p.slot, p.uid])
        for i in ev.get("die", ()):
            for p in self.procs:
                if p.slot == i and p.state == "alive":
                    p.state = "zombie"
                    p.code = 0 if i in ev.get("exit0", ()) else int((ev.get("codes") or {}).get(str(i), 1))
                    self.trace.append(["die", i, p.uid])
        for sg in ev.get("sig", ()):
            self.deliver(sg)
        # a burst of file-change events (a branch switch, a formatter run): one reload-all request per event
        for _ in range(int(ev.get("burst", 0) or 0)):
            self.deliver("FC")
        self.call_limit = 3000 + 40 * int(ev.get("burst", 0) or 0) * (len({p.slot for p in self.procs}) + 1)
        self.calls = 0
        self.mid = {}
        self.vanish = set(ev.get("vanish", ()))
        for k, sg in ev.get("mid", ()):
            self.mid.setdefault(k, []).append(sg)

    def kill(self, pid: Any, sig: Any) -> None:
        self.point("kill")
        holders = [p for p in self.procs if p.pid == pid and p.state != "new"]
        live = [p for p in holders if p.state != "reaped"]
        p = (live or holders or [None])[-1]      # the process that has this number NOW (pids of reaped processes get reused)
        self.trace.append(["kill", p.uid if p else pid, int(sig), p.state if p else None])
        if p is not None and p.state == "alive" and p.slot in self.vanish:
            # the process exited (and was reaped, e.g. SIGCHLD ignored) between the manager's is_alive() and its os.kill()
            p.state = "reaped"
            self.freed.append(p.pid)
            self.trace.append(["die", p.slot, p.uid])
            raise ProcessLookupError(pid)
        if p is None or p.state == "reaped":
            raise ProcessLookupError(pid)
        if p.state in ("alive", "terminating"):
            pass


def run_manager(W: int, max_fails: int, history: List[Dict[str, Any]], startup_deaths=(), slow=(), hosted: bool = False, pidpool: int = 0) -> Dict[str, Any]:
    """hosted=True: nothing about the identity of the current process is faked (used when the manager is run inside
    a real multiprocessing child, see run_manager_hosted)."""
    w = World(history, list(startup_deaths))
    for k_, sg_ in ((history[0].get("boot") if history else None) or ()):
        w.mid.setdefault(int(k_), []).append(sg_)       # signals that arrive while the manager is still starting its workers (before the first tick)
    w.slow = {int(k): float(v) for k, v in slow}
    w.pid_pool = int(pidpool or 0)

    def mk_process(target: Any = None, kwargs: Any = None, name: Any = None, daemon: Any = None, **kw: Any) -> FP:
        p = FP(w, name)
        w.procs.append(p)
        return p

    def mk_queue(*a: Any) -> FQ:
        q = FQ()
        q.w = w
        return q

    pm.signal = types.SimpleNamespace(SIGINT=2, SIGTERM=15, SIGHUP=1, signal=lambda s, h: w.handlers.__setitem__(int(s), h))  # type: ignore
    pm.Process = mk_process  # type: ignore
    pm.sleep = w.sleep  # type: ignore
    for clock_name in ("monotonic", "time", "perf_counter"):
        if callable(getattr(pm, clock_name, None)):      # only if the module itself reads a clock: it gets the virtual one
            _ORIG.setdefault(clock_name, getattr(pm, clock_name))
            setattr(pm, clock_name, (lambda: w.mono + w.wall_off) if clock_name == "time" else (lambda: w.mono))
    pm.Queue = mk_queue  # type: ignore
    pm.Event = FE  # type: ignore
    pm.os = types.SimpleNamespace(kill=w.kill, getpid=lambda: 1)  # type: ignore
    if "current_process" in _ORIG and not hosted:
        pm.current_process = lambda: types.SimpleNamespace(name="MainProcess")  # type: ignore
    try:
        m = pm.ProcessManager(WorkerArgs(broker="x:y", modules=[], workers=W, max_fails=max_fails), worker_function=lambda args: None)
        w.queue = m.action_queue
        exc = None
        try:
            ret: Any = m.start()
            w.trace.append(["return", ret])
            status = "returned"
        except Stop:
            ret, status = None, "running"
        except Hang:
            ret, status, exc = None, "raised", "Hang: the manager spins without sleeping (>3000 OS calls in one tick)"
            w.trace.append(["raise", "Hang"])
        except (Exception, KeyboardInterrupt, SystemExit) as e:  # noqa: BLE001
            ret, status, exc = None, "raised", f"{type(e).__name__}: {e}"
            w.trace.append(["raise", type(e).__name__])
        return {"status": status, "ret": ret, "exc": exc, "trace": w.trace, "nworkers": len(m.workers),
                "ticks_used": w.tick, "procs": [(p.slot, p.uid, p.state) for p in w.procs]}
    finally:
        for n, v in _ORIG.items():
            setattr(pm, n, v)


def _hosted_child(conn: Any, a: Any) -> None:
    try:
        res = run_manager(a[0], a[1], a[2], a[3], a[4], hosted=True, pidpool=a[6] if len(a) > 6 else 0)
        res.pop("procs", None)
        conn.send(res)
    except BaseException as e:  # noqa: BLE001
        conn.send({"status": "raised", "ret": None, "exc": f"{type(e).__name__}: {e}", "trace": [["raise", type(e).__name__]],
                   "nworkers": a[0], "ticks_used": 0})
    finally:
        conn.close()


def run_manager_hosted(W: int, max_fails: int, history: List[Dict[str, Any]], startup_deaths=(), slow=(), pidpool: int = 0) -> Dict[str, Any]:
    """The same run, but with the manager living in a multiprocessing child named like an application supervisor
    (not 'worker-*'): a legal way to host `ProcessManager` / `run_worker` inside a bigger program."""
    import multiprocessing as mp

    ctx = mp.get_context("fork")
    parent, child = ctx.Pipe(duplex=False)
    p = ctx.Process(target=_hosted_child, args=(child, (W, max_fails, history, list(startup_deaths), list(slow), False, pidpool)), name="supervisor-1")
    p.start()
    child.close()
    try:
        if parent.poll(60):
            res = parent.recv()
        else:
            res = {"status": "raised", "ret": None, "exc": "Hang: hosted manager did not answer within 60 s", "trace": [], "nworkers": W, "ticks_used": 0}
    finally:
        p.join(5)
        if p.is_alive():
            p.kill()
    return res
