"""Worker harness (DESIGN 2.2): scripted broker, recording backend / middlewares,
timing tasks, and `run_worker` which runs the real `Receiver.listen()` on the virtual loop
and returns one totally ordered trace of observable events.

Trace event: [t, kind, msg_index, payload_dict]
kinds: take, enter, exit, ack, save_start, save_end, save_failed, stop, return, kick,
       pre_execute/post_execute/on_error/post_save (with mw index), barrier_ok, barrier_timeout
"""
from __future__ import annotations

import asyncio
import gc
import weakref
import concurrent.futures as cf
import json
from typing import Any, Callable, Dict, List, Optional

from taskiq import AckableMessage, AsyncBroker, Context, TaskiqDepends, TaskiqMiddleware
from taskiq.abc.result_backend import AsyncResultBackend
from taskiq.acks import AcknowledgeType
from taskiq.exceptions import BrokerError, TaskRejectedError  # noqa: E402
from taskiq.exceptions import NoResultError
from taskiq.kicker import AsyncKicker
from taskiq.receiver import Receiver

from vt.core.vloop import Deadlock, VirtualTimeLoop

NEVER = 1.0e6
WALL = {"offset": 0.0}     # offset of the fake wall clock (taskiq.receiver.receiver.time) against the virtual loop clock


class Inline(cf.Executor):
    """Executor that runs the callable immediately (sync tasks have zero virtual duration)."""

    def submit(self, fn, *a, **k):  # type: ignore[override]
        f: cf.Future = cf.Future()
        try:
            f.set_result(fn(*a, **k))
        except BaseException as e:  # noqa: BLE001
            f.set_exception(e)
        return f


class MyBase(BaseException):
    pass


class Conn:
    """A plain class: pydantic cannot build a schema for it, so a value for a parameter annotated with it is passed on unchanged."""


class MyErr(Exception):
    pass


class EmptyBatchError(Exception):
    """an aggregate error that reports its number of sub-errors through len(): raised with none, the INSTANCE is falsy"""

    def __len__(self) -> int:
        return 0


class BadStrError(Exception):
    """an error whose text is built from a template and the template look-up fails: str(exc) raises"""

    def __str__(self) -> str:
        raise KeyError("no template for this error")


EXC: Dict[str, type] = {
    "TaskRejectedError": TaskRejectedError,
    "EmptyBatchError": EmptyBatchError,
    "BadStrError": BadStrError,
    "ValueError": ValueError,
    "MyErr": MyErr,
    "KeyboardInterrupt": KeyboardInterrupt,
    "SystemExit": SystemExit,
    "CancelledError": asyncio.CancelledError,
    "MyBase": MyBase,
    "GeneratorExit": GeneratorExit,
    "NoResult": NoResultError,
}


class LazyValue:
    """an object a task may legitimately RETURN that happens to be awaitable (a deferred computation, a client's lazy call)."""

    def __await__(self) -> Any:
        AWAITED.append(1)
        return iter(())


AWAITED: List[int] = []


OBJECTS: Dict[str, Any] = {
    "awaitable": LazyValue(),
    "object": object(), "set": {1, 2}, "complex": 1j, "lambda": (lambda: 0), "bytes": b"\x00\xff",
    "tuple": (1, (2, 3)), "exception_instance": ValueError("as a value"), "type": dict, "nan": float("nan"),
}


def ret_value(sp: Dict[str, Any], i: int) -> Any:
    if "rvobj" in sp:
        return OBJECTS[sp["rvobj"]]
    if "rv" in sp:
        return sp["rv"]
    return ["rv", i]


def msg_index(task_id: Any) -> Any:
    if isinstance(task_id, str) and task_id.startswith("id"):
        try:
            return int(task_id[2:])
        except ValueError:
            return task_id
    return task_id


class Trace:
    def __init__(self, loop: asyncio.AbstractEventLoop) -> None:
        self.loop = loop
        self.ev: List[List[Any]] = []

    def add(self, kind: str, msg: Any = None, **kw: Any) -> None:
        self.ev.append([round(self.loop.time(), 9), kind, msg, kw])


class QueueUnavailableError(BrokerError):
    """what a third-party broker raises when it cannot send (its own subclass of taskiq's BrokerError)."""


def kick_failure(kind: str) -> BaseException:
    import taskiq.exceptions as te

    if kind == "QueueUnavailableError":
        return QueueUnavailableError()
    if hasattr(te, kind):
        return getattr(te, kind)()
    return {"RuntimeError": RuntimeError, "ConnectionError": ConnectionError, "TimeoutError": TimeoutError, "KeyError": KeyError}[kind]("broker down")


class ScriptedBroker(AsyncBroker):
    """listen() yields message i at its scripted virtual instant; kick() records."""

    def __init__(self, tr: Trace) -> None:
        super().__init__()
        self.tr = tr
        self.script: List[Any] = []   # (at, data, ackkind)
        self.ends = False
        self.sent: List[Any] = []
        self.kick_fail: set = set()
        self.kicks = 0
        self.kick_exc = "RuntimeError"
        self.pos = 0
        self.fault_at: Any = None
        self.cancel_cleanup: Any = None

    async def kick(self, message: Any) -> None:
        k = self.kicks
        self.kicks += 1
        self.tr.add("kick", msg_index(message.task_id), n=k)
        if k in self.kick_fail:
            raise kick_failure(self.kick_exc)
        self.sent.append(message)

    async def listen(self):  # type: ignore[override]
        loop = asyncio.get_running_loop()
        # a second listen() (the same worker subscribing again) goes on with the messages not handed over yet
        while self.pos < len(self.script):
            i = self.pos
            at, data, ackkind = self.script[i]
            d = at - loop.time()
            if d > 0:
                try:
                    await asyncio.sleep(d)
                except asyncio.CancelledError:
                    await self._unsubscribe()
                    raise
            if self.fault_at is not None and (i == self.fault_at or (isinstance(self.fault_at, list) and i in self.fault_at)):
                # at the instant message i would have been handed over the subscription breaks instead; listen() fails
                if isinstance(self.fault_at, list):
                    self.fault_at.remove(i)          # [k, k]: the next subscription breaks at once, too
                else:
                    self.fault_at = None
                self.tr.add("stream_fault")
                raise ConnectionError("connection to the broker lost")
            if ackkind is None:
                item: Any = data
            elif ackkind == "future":
                def fack(i: int = i) -> Any:
                    # a plain function returning an awaitable that is not a coroutine: the confirmation completes later
                    fut = loop.create_future()

                    def done() -> None:
                        self.tr.add("ack", i)
                        if not fut.done():
                            fut.set_result(None)

                    loop.call_later(0.05, done)
                    return fut

                item = AckableMessage(data=data, ack=fack)
            elif ackkind == "cancelled_future":
                def cack(i: int = i) -> Any:
                    # the confirmation is a future of the broker's connection which gets cancelled (connection reset):
                    # awaiting it raises CancelledError inside the message's callback, the callback task ends cancelled
                    self.tr.add("ack", i)
                    fut = loop.create_future()
                    loop.call_later(0.01, fut.cancel)
                    return fut

                item = AckableMessage(data=data, ack=cack)
            elif ackkind == "deferred":
                async def _inner(i: int = i) -> None:
                    self.tr.add("ack", i)

                def dack(i: int = i) -> Any:
                    return _inner(i)     # plain function returning a coroutine

                item = AckableMessage(data=data, ack=dack)
            elif ackkind == "slow":
                async def slow_ack(i: int = i) -> None:
                    # an acknowledgement that is a real round trip to the broker: it is complete only when the coroutine has finished
                    self.tr.add("ack", i)
                    await asyncio.sleep(1.5)
                    self.tr.add("ack_done", i)

                item = AckableMessage(data=data, ack=slow_ack)
            elif ackkind in ("sync", "sync_fail"):
                def sack(i: int = i, fail: bool = ackkind == "sync_fail") -> None:
                    self.tr.add("ack", i)
                    if fail:
                        raise ConnectionResetError("ack failed")

                item = AckableMessage(data=data, ack=sack)
            else:
                async def ack(i: int = i, fail: bool = ackkind == "async_fail") -> None:
                    self.tr.add("ack", i)
                    if fail:
                        raise ConnectionResetError("ack failed")

                item = AckableMessage(data=data, ack=ack)
            self.pos = i + 1
            self.tr.add("take", i)
            yield item
        if not self.ends:
            try:
                await asyncio.Event().wait()
            except asyncio.CancelledError:
                await self._unsubscribe()
                raise

    async def _unsubscribe(self) -> None:
        """what the broker's listen() does when its pending fetch is cancelled (the worker stops prefetching): release the consumer -
        at once, after a round trip, or failing because the connection is gone.  Nobody has to wait for it."""
        how = self.cancel_cleanup
        if not how:
            return
        self.tr.add("unsubscribe_start")
        if how == "raise":
            raise ConnectionError("connection lost while unsubscribing")
        await asyncio.sleep(float(how))
        self.tr.add("unsubscribe_done")


# what a result backend may raise: anything, including the connection / timeout errors of a network client
SAVE_EXC = {"RuntimeError": RuntimeError, "ConnectionError": ConnectionError, "TimeoutError": TimeoutError, "OSError": OSError,
            "ConnectionResetError": ConnectionResetError, "ValueError": ValueError}


class RecordingBackend(AsyncResultBackend):
    def __init__(self, tr: Trace, fail_calls=(), latency: float = 0.0) -> None:
        self.tr = tr
        self.n = 0
        self.fail = set(fail_calls)
        self.lat = latency
        self.store: Dict[str, Any] = {}
        self.results: List[Any] = []   # (task_id, TaskiqResult) in call order
        self.fail_ids: set = set()     # message indices whose result can NEVER be saved (persistent failure, every attempt)
        self.fail_exc = "RuntimeError"

    async def set_result(self, task_id: str, result: Any) -> None:
        k = self.n
        self.n += 1
        self.results.append((task_id, result))
        self.tr.add("save_start", msg_index(task_id), n=k, is_err=bool(result.is_err),
                    err=type(result.error).__name__ if result.error is not None else None)
        if self.lat:
            await asyncio.sleep(self.lat)
        if k in self.fail or msg_index(task_id) in self.fail_ids:
            self.tr.add("save_failed", msg_index(task_id))
            if self.fail_exc == "BadStrError":
                raise BadStrError()            # an error of the backend's client library whose text cannot be built
            raise SAVE_EXC.get(self.fail_exc, RuntimeError)("backend down")
        self.store[task_id] = result
        self.tr.add("save_end", msg_index(task_id))

    async def is_result_ready(self, task_id: str) -> bool:
        return task_id in self.store

    async def get_result(self, task_id: str, with_logs: bool = False) -> Any:
        return self.store[task_id]


HOOKS = ("pre_send", "post_send", "pre_execute", "post_execute", "on_error", "post_save")


def build_middlewares(specs: List[Dict[str, Any]], tr: Trace, base: int = 0) -> List[TaskiqMiddleware]:
    """specs[i] = {hook: {"async": bool, "fail_on": [msg idx], "stamp": bool}}.
    Only listed hooks are overridden.  A `stamp`ing pre_* hook returns a *copy* of the
    message with label `seen` extended by its own index (so order is observable in data)."""
    out = []
    for mi, hooks in enumerate(specs, start=base):
        ns: Dict[str, Any] = {}
        base_ns: Dict[str, Any] = {}
        for hook, hs in hooks.items():
            if hook.startswith("_"):
                continue
            f = _mk_hook(hook, mi, hs.get("async"), set(hs.get("fail_on", ())), bool(hs.get("stamp")), tr)
            if hs.get("names") == "other":
                f = _rename_params(hook, f)
            # "inherited": the hook is defined on an intermediate middleware class, the registered class only inherits it
            (base_ns if hs.get("inherited") else ns)[hook] = f
        parent = type(f"MWBase{mi}", (TaskiqMiddleware,), base_ns) if base_ns else TaskiqMiddleware
        if hooks.get("_value_eq"):
            # middlewares with value equality (think @dataclass): equal ones are still separate registrations
            ns["__eq__"] = lambda self, other: isinstance(other, TaskiqMiddleware) and getattr(other, "_vt_eq", None) == "same"
            ns["__hash__"] = lambda self: 7
            ns["_vt_eq"] = "same"
        out.append(type(f"MW{mi}", (parent,), ns)())
    return out


class _Awaitable:
    """awaitable, but not a coroutine object (what Cython-compiled coroutines, tracing wrappers and lazy clients return)."""

    def __init__(self, coro: Any) -> None:
        self.coro = coro

    def __await__(self) -> Any:
        return self.coro.__await__()


def _rename_params(hook: str, inner: Callable[..., Any]) -> Callable[..., Any]:
    """The same hook written with parameter names of its own (msg, res / *args): hooks are called positionally."""
    is_coro = asyncio.iscoroutinefunction(inner)
    if hook in ("pre_send", "pre_execute", "post_send"):
        if is_coro:
            async def w1(self: Any, msg: Any) -> Any:
                return await inner(self, msg)
            w: Any = w1
        else:
            def w2(self: Any, msg: Any) -> Any:
                return inner(self, msg)
            w = w2
    elif hook == "on_error":
        if is_coro:
            async def w3(self: Any, *args: Any) -> Any:
                return await inner(self, *args)
            w = w3
        else:
            def w4(self: Any, *args: Any) -> Any:
                return inner(self, *args)
            w = w4
    else:
        if is_coro:
            async def w5(self: Any, msg: Any, res: Any) -> Any:
                return await inner(self, msg, res)
            w = w5
        else:
            def w6(self: Any, msg: Any, res: Any) -> Any:
                return inner(self, msg, res)
            w = w6
    w.__name__ = hook
    return w


HOOK_EXC = {"exc": "RuntimeError"}     # class of the exception a failing hook raises (set per scenario by build_middlewares)


def _hook_failure() -> BaseException:
    return BadStrError() if HOOK_EXC["exc"] == "BadStrError" else RuntimeError("hook failure")


def _mk_hook(hook: str, mi: int, is_async: Any, fail_on: set, stamp: bool, tr: Trace) -> Callable[..., Any]:
    if hook in ("pre_send", "pre_execute"):
        def f(self: Any, message: Any) -> Any:
            i = msg_index(message.task_id)
            tr.add(hook, i, mw=mi, seen=str(message.labels.get("seen", "")))
            if i in fail_on:
                raise _hook_failure()
            if stamp:
                message = message.model_copy(deep=True)
                message.labels["seen"] = str(message.labels.get("seen", "")) + f"{hook[4]}{mi}"
            return message
    elif hook == "on_error":
        def f(self: Any, message: Any, result: Any, exception: Any) -> None:  # type: ignore[misc]
            i = msg_index(message.task_id)
            tr.add(hook, i, mw=mi, exc=type(exception).__name__)
            if i in fail_on:
                raise _hook_failure()
    elif hook == "post_send":
        def f(self: Any, message: Any) -> None:  # type: ignore[misc]
            i = msg_index(message.task_id)
            tr.add(hook, i, mw=mi, seen=str(message.labels.get("seen", "")))
            if i in fail_on:
                raise _hook_failure()
    else:
        def f(self: Any, message: Any, result: Any) -> None:  # type: ignore[misc]
            i = msg_index(message.task_id)
            tr.add(hook, i, mw=mi, is_err=bool(result.is_err))
            if i in fail_on:
                raise _hook_failure()
    if is_async:
        g = f

        async def fa(self: Any, *a: Any, **k: Any) -> Any:
            return g(self, *a, **k)

        fa.__name__ = hook
        if is_async in ("future", "awaitable"):
            # a plain function returning an awaitable that is NOT a coroutine object: a Future/Task, or an object with __await__
            def ff(self: Any, *a: Any, **k: Any) -> Any:
                if is_async == "future":
                    return asyncio.ensure_future(fa(self, *a, **k))
                return _Awaitable(fa(self, *a, **k))

            ff.__name__ = hook
            return ff
        if is_async == "deferred":
            # a plain function that returns an awaitable (e.g. an async hook behind an ordinary decorator)
            def fd(self: Any, *a: Any, **k: Any) -> Any:
                return fa(self, *a, **k)

            fd.__name__ = hook
            return fd
        return fa
    f.__name__ = hook
    return f


def make_message(broker: AsyncBroker, task_name: str, idx: int, args=(), kwargs=None, labels=None) -> Any:
    """Build through the real client path with a label dict of its own (never the task's)."""
    k = AsyncKicker(task_name, broker, dict(labels or {})).with_task_id(f"id{idx}")
    return k._prepare_message(*args, **(kwargs or {}))


def bad_payload(spec: Dict[str, Any], valid: bytes) -> bytes:
    v = spec.get("v", "bytes")
    if v == "bytes":
        return bytes.fromhex(spec.get("hex", "00ff"))
    if v == "truncate":
        keep = max(0, min(len(valid) - 1, int(spec.get("keep", 5))))
        return valid[:keep]
    d = json.loads(valid)
    if v == "labels_list":
        d["labels"] = [1, 2]
    elif v == "no_task_name":
        d.pop("task_name", None)
    elif v == "args_not_list":
        d["args"] = 5
    elif v == "bad_label_type":
        d["labels"] = {"x": "1"}
        d["labels_types"] = {"x": 99}
    elif v == "unparsable_label":
        d["labels"] = {"x": "not-an-int"}
        d["labels_types"] = {"x": 2}
    elif v == "not_object":
        return b"[1,2,3]"
    elif v == "null":
        return b"null"
    return json.dumps(d).encode()


PARKED: Any = weakref.WeakValueDictionary()


def _wake_parked(i: int) -> None:
    gc.collect()
    f = PARKED.get(i)
    if f is not None and not f.done():
        f.set_result(None)


def register_timing_tasks(broker: ScriptedBroker, tr: Trace, sc: Dict[str, Any]) -> None:
    specs = sc["msgs"]
    nbar = sum(1 for m in specs if m.get("barrier"))
    bar = {"n": 0, "ev": None, "need": nbar}

    async def atask(i: int, extra: Any = None, target: Any = None, args: Any = None, kwargs: Any = None) -> Any:
        sp = specs[i]
        tr.add("enter", i)
        if sp.get("clock_step"):
            WALL["offset"] += sp["clock_step"]      # the host's wall clock is stepped (NTP correction, VM resume) meanwhile
        try:
            if sp.get("barrier"):
                if bar["ev"] is None:
                    bar["ev"] = asyncio.Event()
                bar["n"] += 1
                if bar["n"] >= bar["need"]:
                    bar["ev"].set()
                try:
                    await asyncio.wait_for(bar["ev"].wait(), 30.0)
                    tr.add("barrier_ok", i)
                except asyncio.TimeoutError:
                    tr.add("barrier_timeout", i)
                return ["rv", i]
            d = NEVER if sp["out"] == "never" else sp["dur"]
            if d and sp.get("parked"):
                # the function waits on a future nobody else holds strongly (a waiter kept in a weak registry): the task
                # stays alive only as long as the worker itself keeps a reference to it; a GC pass happens before the wake-up
                fut = asyncio.get_running_loop().create_future()
                PARKED[i] = fut
                asyncio.get_running_loop().call_later(d, _wake_parked, i)
                await fut
            elif d and sp.get("waits"):
                # the function waits for the result of another task with taskiq's own client API (AsyncTaskiqTask.wait_result);
                # that result appears in the backend d seconds from now.  The message is unfinished all the while.
                from taskiq.result import TaskiqResult as _TR
                from taskiq.task import AsyncTaskiqTask as _ATT

                rb_ = broker.result_backend
                gate = f"gate{i}"
                asyncio.get_running_loop().call_later(d, lambda: rb_.store.__setitem__(gate, _TR(is_err=False, return_value=i, execution_time=0.0)))
                await _ATT(gate, rb_).wait_result(check_interval=0.05)
            elif d:
                await asyncio.sleep(d)
            if sp["out"] not in ("ret", "never"):
                raise EXC[sp["out"]]()
            return ret_value(sp, i)
        finally:
            try:
                if sp.get("cleanup"):
                    # asynchronous clean-up: after a cancellation (timeout) the body needs further loop iterations to finish
                    tr.add("cleanup", i)
                    await asyncio.sleep(sp["cleanup"])
            finally:
                tr.add("exit", i)

    def stask(i: int, extra: Any = None, target: Any = None, args: Any = None, kwargs: Any = None) -> Any:
        sp = specs[i]
        tr.add("enter", i)
        try:
            if sp["out"] not in ("ret", "never"):
                raise EXC[sp["out"]]()
            return ret_value(sp, i)
        finally:
            tr.add("exit", i)

    atask.__module__ = __name__
    stask.__module__ = __name__
    broker.register_task(atask, task_name="atask")
    broker.register_task(stask, task_name="stask")

    # the same bodies under two more registrations: a task of a shared broker (global registry) and a task that is
    # registered only after the receiver was constructed (dynamic registration)
    async def shtask(i: int) -> Any:
        return await atask(i)

    async def latask(i: int) -> Any:
        return await atask(i)

    shtask.__module__ = __name__
    latask.__module__ = __name__
    from taskiq.brokers.shared_broker import AsyncSharedBroker

    AsyncBroker.global_task_registry.pop("shtask", None)
    broker._vt_shared = AsyncSharedBroker()  # type: ignore[attr-defined]
    broker._vt_shared.register_task(shtask, task_name="shtask")  # type: ignore[attr-defined]
    # a task name whose function changes KIND after the receiver was built: a shared (global) async task of that name exists
    # first, then the broker's own SYNC task of the same name is registered - the own task wins from then on
    async def swtask_shared(i: int) -> Any:
        tr.add("wrong_function", i)
        return "the shadowed shared function ran"

    def swtask(i: int) -> Any:
        return stask(i)

    swtask_shared.__module__ = __name__
    swtask.__module__ = __name__
    AsyncBroker.global_task_registry.pop("swtask", None)
    broker._vt_shared.register_task(swtask_shared, task_name="swtask")  # type: ignore[attr-defined]

    # a name registered BOTH as a shared (global) task - an async function that also takes the Context - and, on the broker itself, as a plain
    # function of one argument: the broker's own registration wins for everything (which function runs and how its arguments are prepared)
    async def coltask_shared(i: int, ctx: Context = TaskiqDepends()) -> Any:
        tr.add("wrong_function", i)
        return "the shadowed shared function ran"

    async def coltask(i: int) -> Any:
        return await atask(i)

    coltask_shared.__module__ = coltask.__module__ = __name__
    AsyncBroker.global_task_registry.pop("coltask", None)
    broker._vt_shared.register_task(coltask_shared, task_name="coltask")  # type: ignore[attr-defined]
    broker.register_task(coltask, task_name="coltask")

    # a task function whose return annotation does not match what it returns (annotations are not enforced): what it returned is the result
    async def annret(i: int) -> int:
        tr.add("enter", i)
        try:
            return ret_value(specs[i], i)  # type: ignore[return-value]
        finally:
            tr.add("exit", i)

    annret.__module__ = __name__
    broker.register_task(annret, task_name="annret")

    def _late() -> None:
        broker.register_task(latask, task_name="latask")
        broker.register_task(swtask, task_name="swtask")

    broker._vt_late = _late  # type: ignore[attr-defined]

    async def dyntask(i: int) -> Any:
        return await atask(i)

    async def cltask(i: int, conn: Conn = None) -> Any:  # type: ignore[assignment]
        return await atask(i)

    cltask.__module__ = __name__
    broker.register_task(cltask, task_name="cltask")

    dyntask.__module__ = __name__

    # a task name whose implementation is replaced WHILE the worker runs (hot reload, a plugin registering its own version): first a
    # sync function, later an async one under the same name - every message runs the version registered when it is processed
    def retask_v1(i: int) -> Any:
        return stask(i)

    async def retask_v2(i: int) -> Any:
        return await atask(i)

    retask_v1.__module__ = retask_v2.__module__ = __name__
    broker.register_task(retask_v1, task_name="retask")

    def _register_dyn() -> None:
        tr.add("registered")
        broker.register_task(dyntask, task_name="dyntask")
        broker.register_task(retask_v2, task_name="retask")

    broker._vt_register_dyn = _register_dyn  # type: ignore[attr-defined]


def extra_value(kind: str) -> Any:
    """unusual-but-legal argument values the client serialises without complaint"""
    if kind == "surrogate":
        return "report-\udcff.csv"               # os.fsdecode() of an undecodable file name: a lone surrogate
    if kind == "deep":
        v: Any = 1
        for _ in range(250):
            v = [v]
        return v
    if kind == "bigint":
        return 2**80
    return "h\u00e9llo \U0001f600"


def build_script(broker: ScriptedBroker, sc: Dict[str, Any]) -> List[Any]:
    script = []
    for i, sp in enumerate(sc["msgs"]):
        kind = sp["kind"]
        tname = sp.get("task") or {"sync": "stask", "shared": "shtask", "late": "latask", "dyn": "dyntask", "plaincls": "cltask", "swapped": "swtask", "retask": "retask", "collide": "coltask", "annret": "annret"}.get(kind, "atask")
        labels = dict(sp.get("labels") or {})
        late = dict(sp.get("late_labels") or {})
        if sp.get("timeout") is not None:
            (late if sp.get("timeout_late") else labels)["timeout"] = sp["timeout"]
        args = sp.get("args", [i])
        kwargs = sp.get("kwargs") or ({"conn": "postgres://x"} if kind == "plaincls" else None)
        if sp.get("kwnames") and kind in ("async", "sync"):
            # keyword arguments whose NAMES are ordinary words the worker's own plumbing uses too (target, args, kwargs)
            kwargs = {**(kwargs or {}), **{n: f"{n}-of-{i}" for n in sp["kwnames"]}}
        if sp.get("extra") and kind in ("async", "sync"):
            kwargs = {**(kwargs or {}), "extra": extra_value(sp["extra"])}
        m = make_message(broker, tname, sp.get("dup_of", i), args, kwargs, labels)
        # labels added after the client computed labels_types (what a pre_send middleware or a foreign producer does):
        # they travel as plain JSON values without a type entry
        m.labels.update(late)
        if kind == "unknown":
            m.task_name = sp.get("uname") or "no.such.task"
        data = broker.formatter.dumps(m).message
        if kind == "bad":
            data = bad_payload(sp.get("bad") or {}, data)
        script.append((sp["at"], data, sp.get("ack")))
    return script


def run_worker(sc: Dict[str, Any], register: Optional[Callable[..., None]] = None) -> Dict[str, Any]:
    """Run one scenario; returns {"trace": [...], "returned": bool, "listen_exc": str|None,
    "deadlock": bool, "backend": RecordingBackend, "broker": ScriptedBroker}."""
    loop = VirtualTimeLoop()
    loop.max_iterations = int(sc.get("max_iterations", 200_000))
    asyncio.set_event_loop(loop)
    import taskiq.receiver.receiver as _rr

    WALL["offset"] = 0.0
    _orig_time = getattr(_rr, "time", None)
    if _orig_time is not None:
        # execution time is measured with the wall clock: make it follow the virtual clock, plus generated steps
        _rr.time = lambda: 1.7e9 + loop.time() + WALL["offset"]  # type: ignore[attr-defined]
    if sc.get("eager_tasks") and hasattr(asyncio, "eager_task_factory"):
        # an event loop configured with the standard eager task factory (Python 3.12): a new task runs synchronously up to its
        # first real suspension, so a task can already be finished when create_task() returns
        loop.set_task_factory(asyncio.eager_task_factory)
    tr = Trace(loop)
    b = ScriptedBroker(tr)
    b.ends = bool(sc.get("ends", False))
    b.is_worker_process = True   # what `taskiq worker` sets before it starts the receiver
    b.kick_fail = set(sc.get("fail_kicks", ()))
    b.fault_at = list(sc["stream_fault"]) if isinstance(sc.get("stream_fault"), list) else sc.get("stream_fault")
    b.cancel_cleanup = sc.get("cancel_cleanup")
    rb = RecordingBackend(tr, sc.get("fail_saves", ()), sc.get("save_latency", 0.0))
    rb.fail_ids = set(sc.get("fail_save_ids", ()))
    rb.fail_exc = sc.get("save_exc", "RuntimeError")
    if not sc.get("backend_late"):
        b.result_backend = rb
    (register or register_timing_tasks)(b, tr, sc)
    HOOK_EXC["exc"] = sc.get("hook_exc", "RuntimeError")
    mws = build_middlewares(sc.get("mws", []), tr)
    if mws:
        b.add_middlewares(*mws)
    late = getattr(b, "_vt_late", None)
    b.script = build_script(b, sc)
    r = Receiver(
        b,
        executor=Inline(),
        validate_params=bool(sc.get("validate", True)),
        max_async_tasks=sc.get("A"),
        max_prefetch=sc.get("P", 0),
        max_tasks_to_execute=sc.get("N"),
        wait_tasks_timeout=sc.get("W"),
        propagate_exceptions=bool(sc.get("propagate", True)),
        # the acknowledge type as the enum member or as its plain string value (it is a str enum: both select the same point)
        ack_type=(str(sc.get("ack_type", "when_saved")) if sc.get("ack_type_as_str") else AcknowledgeType(sc.get("ack_type", "when_saved"))),  # type: ignore[arg-type]
        run_startup=False,
    )
    res: Dict[str, Any] = {"returned": False, "listen_exc": None, "deadlock": False}
    if sc.get("backend_late"):
        # the result backend is installed only after the receiver object exists (a worker start-up handler does that,
        # and so does InMemoryBroker().with_result_backend(...)): results go to the backend the broker has when they are stored
        b.result_backend = rb
    if late is not None:
        late()      # registered after the receiver exists

    async def main() -> None:
        ev = asyncio.Event()
        if sc.get("stop") is not None:
            def _stop() -> None:
                if any(m.get("parked") for m in sc["msgs"]):
                    gc.collect()          # a garbage-collection pass happens to run right before the stop request
                tr.add("stop")
                ev.set()
            loop.call_at(sc["stop"], _stop)
        if sc.get("register_at") is not None and hasattr(b, "_vt_register_dyn"):
            loop.call_at(sc["register_at"], b._vt_register_dyn)   # a task registered while the worker is running
        if sc.get("via_api"):
            # the programmatic way to run a worker: taskiq.api.run_receiver_task, which subscribes again after a failed listen()
            import taskiq.api.receiver as _apir

            class _InlinePool(Inline):
                def __init__(self, max_workers: Any = None) -> None:
                    super().__init__()

                def __enter__(self) -> Any:
                    return self

                def __exit__(self, *a: Any) -> None:
                    return None

            _saved_pool = _apir.ThreadPoolExecutor
            _apir.ThreadPoolExecutor = _InlinePool  # type: ignore[misc,assignment]
            res["_restore"] = lambda: setattr(_apir, "ThreadPoolExecutor", _saved_pool)
            lt = asyncio.ensure_future(_apir.run_receiver_task(
                b, validate_params=bool(sc.get("validate", True)), max_async_tasks=sc.get("A"), max_prefetch=sc.get("P", 0),
                propagate_exceptions=bool(sc.get("propagate", True)), run_startup=False, ack_time=AcknowledgeType(sc.get("ack_type", "when_saved"))))
        else:
            lt = asyncio.ensure_future(r.listen(ev))
        if sc.get("neighbour"):
            # ANOTHER worker (its own broker, its own receiver) lives in the same process / event loop and is busy with a task that
            # never ends; it is not stopped.  What the observed receiver does, and when it returns, is its own business only.
            from taskiq.brokers.inmemory_broker import InmemoryResultBackend as _IRB

            class _NB(AsyncBroker):
                async def kick(self, message: Any) -> None:
                    return None

                async def listen(self):  # type: ignore[override]
                    yield b2.formatter.dumps(AsyncKicker("neighbour.forever", b2, {})._prepare_message()).message
                    await asyncio.Event().wait()

            b2 = _NB()
            b2.result_backend = _IRB()

            async def forever() -> None:
                await asyncio.Event().wait()

            forever.__module__ = __name__
            b2.register_task(forever, task_name="neighbour.forever")
            asyncio.ensure_future(Receiver(b2, executor=Inline(), max_async_tasks=2, run_startup=False).listen(asyncio.Event()))
        done, _ = await asyncio.wait({lt}, timeout=sc.get("horizon", 100.0))
        if lt in done:
            tr.add("return")
            res["returned"] = True
            if lt.cancelled():
                res["listen_exc"] = "CancelledError"
            elif lt.exception() is not None:
                res["listen_exc"] = repr(lt.exception())
        else:
            lt.cancel()
        if sc.get("relisten") and res["returned"]:
            # the broker connection broke and listen() failed while tasks were running; the SAME Receiver object is asked to
            # listen again: it is still one worker, its limits keep applying to everything it has in hand
            res["first_listen_exc"], res["listen_exc"] = res["listen_exc"], None
            tr.add("relisten")
            lt2 = asyncio.ensure_future(r.listen(asyncio.Event()))
            done2, _ = await asyncio.wait({lt2}, timeout=max(1.0, sc.get("horizon", 100.0) - loop.time()))
            if lt2 in done2:
                tr.add("return")
                if not lt2.cancelled() and lt2.exception() is not None:
                    res["listen_exc"] = repr(lt2.exception())
            else:
                lt2.cancel()
        if sc.get("drain", 0.0):
            await asyncio.sleep(sc["drain"])

    try:
        try:
            loop.run_until_complete(main())
            res["trace"] = list(tr.ev)   # events recorded by the clean-up below are not observations
        except Deadlock as exc:
            res["deadlock"] = True
            res["trace"] = list(tr.ev)
            res["deadlock_msg"] = str(exc)
        except (KeyboardInterrupt, SystemExit, GeneratorExit) as exc:
            # an exception of a task function reached the event loop itself: in a real worker process this ends the worker
            res["trace"] = list(tr.ev)
            res["listen_exc"] = f"{type(exc).__name__} escaped from message processing to the event loop (the worker process would die)"
    finally:
        loop.max_iterations = 0
        try:
            pend = [t for t in asyncio.all_tasks(loop) if not t.done()]
            for t in pend:
                t.cancel()
            if pend:
                try:
                    loop.run_until_complete(asyncio.gather(*pend, return_exceptions=True))
                except BaseException:  # noqa: BLE001
                    pass
            try:
                loop.run_until_complete(loop.shutdown_asyncgens())
            except BaseException:  # noqa: BLE001
                pass
        finally:
            loop.close()
            asyncio.set_event_loop(None)
    AsyncBroker.global_task_registry.pop("shtask", None)
    AsyncBroker.global_task_registry.pop("swtask", None)
    if res.get("_restore"):
        res.pop("_restore")()
    if _orig_time is not None:
        _rr.time = _orig_time  # type: ignore[attr-defined]
    res.setdefault("trace", list(tr.ev))
    res["backend"] = rb
    res["broker"] = b
    return res


# ------------------------------------------------------------------ trace helpers


def timeout_verdict(sp: Dict[str, Any]) -> str:
    """'none' | 'ok' (finishes before the timeout) | 'tie' (finishes exactly at it: either outcome) | 'timeout'.
    The asynchronous clean-up is part of the coroutine the worker waits for."""
    to = sp.get("timeout")
    if to is None or sp["kind"] not in ("async", "shared", "late", "dyn", "plaincls", "collide"):
        return "none"
    total = NEVER if sp.get("out") == "never" else sp["dur"] + sp.get("cleanup", 0)
    if abs(total - float(to)) < 1e-9:
        return "tie"
    return "timeout" if total > float(to) else "ok"


def per_message(trace: List[List[Any]]) -> Dict[Any, List[Any]]:
    """msg -> list of (position, t, kind, payload)."""
    idx: Dict[Any, List[Any]] = {}
    for n, (t, kind, m, kw) in enumerate(trace):
        if m is None:
            continue
        idx.setdefault(m, []).append((n, t, kind, kw))
    return idx


def is_good(sp: Dict[str, Any]) -> bool:
    return sp["kind"] in ("async", "sync", "shared", "late", "dyn", "plaincls", "swapped", "retask", "collide", "annret")


def brief_trace(trace: List[List[Any]], limit: int = 60) -> List[Any]:
    out = [[e[0], e[1], e[2]] + ([e[3]] if e[3] else []) for e in trace[:limit]]
    if len(trace) > limit:
        out.append(["...", len(trace) - limit, "more"])
    return out
