"""Controlled wall clock for taskiq.cli.scheduler.run (DESIGN 2.3)."""
from __future__ import annotations

import datetime as dtm

import taskiq.cli.scheduler.run as R

from vt.core.engine import HarnessError

import os
import time as _time
import zoneinfo

# The process-local zone must not matter for the scheduler properties: run under a non-UTC local zone
# (with a 45-minute offset) so that code which consults naive local time for a decision is exposed.
LOCAL_ZONE = "Asia/Kathmandu"
os.environ["TZ"] = LOCAL_ZONE
_time.tzset()
LOCAL = zoneinfo.ZoneInfo(LOCAL_ZONE)



def set_local(zone: str = LOCAL_ZONE) -> None:
    """Switch the process-local time zone (TZ + tzset) - a DST zone for runs that cross a transition; default: back to Kathmandu."""
    global LOCAL
    os.environ["TZ"] = zone
    _time.tzset()
    LOCAL = zoneinfo.ZoneInfo(zone)


UTC = dtm.timezone.utc
EPOCH = dtm.datetime(1970, 1, 1, tzinfo=UTC)
US = dtm.timedelta(microseconds=1)

if not hasattr(R, "datetime") or not hasattr(R, "get_task_delay"):
    raise HarnessError("taskiq.cli.scheduler.run no longer exposes `datetime` / `get_task_delay`")


def from_us(us: int) -> dtm.datetime:
    return EPOCH + dtm.timedelta(microseconds=us)


def to_us(d: dtm.datetime) -> int:
    return (d - EPOCH) // US


class FakeDT(dtm.datetime):
    """datetime whose now()/utcnow() return a controlled instant; naive now() is local (Asia/Kathmandu) wall time."""
    cur: dtm.datetime = EPOCH
    source = None   # optional callable returning the current aware UTC datetime

    @classmethod
    def _cur(cls) -> dtm.datetime:
        return cls.source() if cls.source is not None else cls.cur

    @classmethod
    def now(cls, tz=None):  # type: ignore[override]
        c = cls._cur()
        if tz is None:
            return c.astimezone(LOCAL).replace(tzinfo=None)
        return c.astimezone(tz)

    @classmethod
    def utcnow(cls):  # type: ignore[override]
        return cls._cur().replace(tzinfo=None)

    @classmethod
    def today(cls):  # type: ignore[override]
        return cls.now()


def install() -> None:
    R.datetime = FakeDT  # type: ignore[attr-defined]


def uninstall() -> None:
    R.datetime = dtm.datetime  # type: ignore[attr-defined]
