"""C02 - acknowledgement exactly once and never before the configured point."""
from __future__ import annotations

from typing import Any, Dict, List

from hypothesis import strategies as st

from vt.core.engine import Outcome, Part
from vt.harness import worker as wh
from vt.props import common as cm

PID = "C02"
RULE = (
    "[plus a small 'cli_wiring' part: generated `taskiq worker` flag sets parsed by the real WorkerArgs.from_cli and turned into a receiver by the real start_listen(); the acknowledge type selected with --ack-type (any case; default when_saved) is the one the worker's receiver uses] "
    "Hypothesis-generated scenarios: 1-8 ackable messages (sync, async, future-returning or deferred ack callback, or one that itself raises - a call counts when the callback is entered; a few malformed/unknown), "
    "three acknowledge types, async bodies optionally with an asynchronous clean-up in `finally` (they finish only some time after a timeout cancels them), outcomes return / Exception / BaseException subclasses / timeout label exceeded / "
    "no-result / result-backend failure on a generated subset of saves, save latency, optionally a post_execute middleware hook failing for some messages, A in 1..4, P in 0..3, max_tasks_to_execute in None|1..4, optional "
    "stop. Oracle over the trace of the real Receiver: ack count == 1 per well-formed message (<=1 for skipped); "
    "its position relative to enter / exit / save_end|save_failed per acknowledge type; and, for EVERY prefix of "
    "the trace (= crash after that event), no message is acked whose configured point is not inside the prefix. "
    "Non-trivial: >=2 overlapping executions or an outcome other than plain return; distinct = canonical JSON."
    " Part 'pool_shutdown': 1-2 sync task functions blocking in a REAL thread pool while a graceful stop's wait_tasks_timeout (0-50 ms) expires; the harness opens their gate only after listen() has returned; under when_executed / when_saved every ack must come after the function's own exit event (verdict from the order of events only)."
)
ASSUMPTIONS = ["part pool_shutdown uses a real event loop and a real ThreadPoolExecutor; all other parts run on the virtual-time loop with inline sync functions", 
    "crash = the process vanishes after an observable event (trace prefix); cancellation-style kills are not modelled",
    "virtual-time loop, inline executor for sync tasks",
    "a failing post_execute hook (generated for some messages) may leave a when_saved message un-acknowledged (0 acks accepted there); if the message is acknowledged, the position rules bind as for any other; other failing hooks are in C03's domain",
]


def scenario(big: bool = False) -> Any:
    def fin(d: Dict[str, Any]) -> Dict[str, Any]:
        d["msgs"] = cm.sort_msgs(d["msgs"])
        if not d.pop("has_stop"):
            d["stop"] = None
        d["W"] = None
        d["ends"] = True
        d["fail_saves"] = sorted(d["fail_saves"])
        d["horizon"] = cm.horizon_for(d)
        d["drain"] = 0.0
        for m in d["msgs"]:
            if m["kind"] == "retask":
                m["dur"], m["timeout"], m["out"] = 0.0, None, "ret"
                m.pop("cleanup", None)
        pf = sorted(i for i in d.pop("post_fail") if i < len(d["msgs"]))
        pa = d.pop("post_async")
        if pf:
            # a post_execute middleware hook that fails for some messages: the receiver may leave such a message un-acknowledged,
            # but if it does acknowledge it the configured point still binds
            d["mws"] = [{"post_execute": {"async": pa, "fail_on": pf}}]
        return d

    msg = cm.message(kinds=("async", "async", "async", "async", "sync", "bad", "unknown", "plaincls", "retask"),
                     acks=("sync", "sync", "async", "async", "future", "deferred", "sync_fail", "async_fail"), timeouts=(None, None, None, 0.3, 1, "0.35"), cleanups=(0, 0, 0, 0.2))
    return st.fixed_dictionaries({
        "A": st.integers(1, 6 if big else 4), "P": st.integers(0, 6 if big else 3), "N": st.sampled_from([None, None, None, 1, 2, 3, 4] + ([6, 9] if big else [])),
        "ack_type": st.sampled_from(["when_received", "when_executed", "when_saved"]),
        "ack_type_as_str": st.sampled_from([False, False, True]),
        "msgs": st.lists(msg, min_size=1, max_size=14 if big else 8),
        "stop": cm.times(), "has_stop": st.sampled_from([False, False, True]),
        "fail_saves": st.sets(st.integers(0, 13 if big else 7), max_size=3),
        # persistent failures: the result of these messages can never be saved, whatever is retried; and what the backend raises
        "fail_save_ids": st.one_of(st.just([]), st.just([]), st.lists(st.integers(0, 5), max_size=2, unique=True).map(sorted)),
        "save_exc": st.sampled_from(["RuntimeError", "RuntimeError", "ConnectionError", "TimeoutError", "OSError", "ConnectionResetError", "ValueError", "BadStrError"]),
        "save_latency": st.sampled_from([0.0, 0.0, 0.05, 0.3]),
        "post_fail": st.one_of(st.just([]), st.just([]), st.just([]), st.sets(st.integers(0, 7), min_size=1, max_size=3).map(sorted)),
        "post_async": st.sampled_from([False, True]),
        "register_at": cm.times(),          # instant at which the task name `retask` gets a new (async) implementation on the running worker
    }).map(fin)


def parts(tier: str) -> List[Part]:
    if tier == "thorough":
        return [Part("scenarios", "given", shards=16, examples=15000, strategy=lambda: scenario(True), soft_deadline_s=3000)]
    return [Part("scenarios", "given", shards=8, examples=700, strategy=scenario, soft_deadline_s=120)]


def point_reached(kinds_before: List[str], ack_type: str) -> bool:
    """Is the configured acknowledge point inside this per-message event prefix?"""
    if ack_type == "when_received":
        return True  # any time after the message was received (the ack precedes `enter`)
    if ack_type == "when_executed":
        return "exit" in kinds_before
    # when_saved: after the save attempt completed, or after exit when nothing is saved
    if "save_end" in kinds_before or "save_failed" in kinds_before:
        return True
    return False


def expects_save(sp: Dict[str, Any]) -> Any:
    """True / False / None (tie between duration and timeout: either)."""
    v = wh.timeout_verdict(sp)
    if v == "timeout":
        return True
    if v == "tie":
        return None
    return sp["out"] != "NoResult"


def run_case(sc: Dict[str, Any]) -> Outcome:
    out = Outcome()
    specs = sc["msgs"]
    res = wh.run_worker(sc)
    tr = res["trace"]
    out.trace = wh.brief_trace(tr)
    out.clauses_checked = ["C02.a", "C02.b", "C02.c"]
    at = sc["ack_type"]
    pm = wh.per_message(tr)
    if res["listen_exc"] or res["deadlock"]:
        out.add("C02.a", f"listen() failed: {res['listen_exc']} deadlock={res['deadlock']}")
    taken = [m for t, k, m, kw in tr if k == "take"]
    post_fail = {i for mw in sc.get("mws", []) for i in mw.get("post_execute", {}).get("fail_on", ())}
    overlapping = 0
    crash_points = 0
    for i in taken:
        evs = pm.get(i, [])
        kinds = [e[2] for e in evs]
        nack = kinds.count("ack")
        if not wh.is_good(specs[i]):
            if nack > 1:
                out.add("C02.a", f"skipped message {i} acked {nack} times")
            elif nack and at != "when_received":
                # no task function ran and no store was attempted or skipped for a no-result outcome: the configured point was never reached
                out.add("C02.b", f"{at}: message {i} ({specs[i]['kind']}: its task function never started) was acknowledged; events={kinds} - the broker cannot "
                                 f"redeliver it to a worker that can process it")
            continue
        if not res["returned"]:
            continue
        if nack == 0 and at == "when_saved" and i in post_fail and "post_execute" in kinds:
            continue        # the callback was aborted by the failing hook before its acknowledge point: never acked, the broker redelivers
        if nack != 1:
            out.add("C02.a", f"message {i} acked {nack} times ({at}); events={kinds}")
            if nack == 0:
                continue
        ka = kinds.index("ack")
        before = kinds[:ka]
        if at == "when_received":
            if "enter" in before:
                out.add("C02.b", f"when_received: message {i} acked after the task function started; events={kinds}")
        elif at == "when_executed":
            if "exit" not in before:
                out.add("C02.b", f"when_executed: message {i} acked before the task function finished; events={kinds}")
        else:
            saved = "save_start" in kinds
            if "exit" not in before:
                out.add("C02.b", f"when_saved: message {i} acked before the task function finished; events={kinds}")
            elif saved and not ("save_end" in before or "save_failed" in before):
                out.add("C02.b", f"when_saved: message {i} acked before the save attempt completed; events={kinds}")
    # crash enumeration: every prefix of the global trace
    if at != "when_received":
        seen: Dict[Any, List[str]] = {}
        for n, (t, kind, m, kw) in enumerate(tr):
            if m is None or kind == "take" or not isinstance(m, int) or m >= len(specs) or not wh.is_good(specs[m]):
                continue
            if kind == "ack":
                crash_points += 1
                before = seen.get(m, [])
                ok = point_reached(before, at) or (at == "when_saved" and "exit" in before and expects_save(specs[m]) is not True)
                if not ok:
                    out.add("C02.c", f"crash right after event #{n}: message {m} already acked although its "
                                     f"{at} point is not reached; its events so far={before}")
            seen.setdefault(m, []).append(kind)
    out.counters = {"crash_points_examined": len(tr), "acks_position_checked": crash_points}
    # classification
    iv = []
    for i in taken:
        ks = [(e[0], e[2]) for e in pm.get(i, [])]
        en = [p for p, k in ks if k == "enter"]
        if en:
            iv.append((en[0], ks[-1][0]))
    iv.sort()
    overlapping = sum(1 for a, b in zip(iv, iv[1:]) if b[0] < a[1])
    nonret = any(wh.is_good(sp) and (sp["out"] != "ret" or sp.get("timeout") is not None) for sp in specs) or bool(sc["fail_saves"])
    out.nontrivial = bool(overlapping or nonret)
    out.classes = [at] + [c for c, f in (("overlap", overlapping), ("non_return_outcome", nonret),
                                         ("save_failure", any(e[1] == "save_failed" for e in tr)),
                                         ("timeout_hit", any(e[1] == "save_start" and e[3].get("err") == "TimeoutError" for e in tr)),
                                         ("async_ack", any(sp.get("ack") == "async" for sp in specs)), ("failing_post_execute_hook", bool(post_fail & set(taken))), ("failing_ack", any(str(sp.get("ack")).endswith("_fail") for sp in specs))) if f]
    return out


SELFTEST_CASES = [{
    "A": 2, "P": 1, "N": None, "W": None, "stop": None, "ends": True, "ack_type": "when_saved", "horizon": 10.0, "drain": 0.0,
    "fail_saves": [0], "save_latency": 0.05,
    "msgs": [{"kind": "async", "at": 0.0, "dur": 0.3, "out": "ret", "ack": "sync", "timeout": None},
             {"kind": "async", "at": 0.1, "dur": 1.0, "out": "ValueError", "ack": "async", "timeout": 0.3}],
}]



# ---------------------------------------------------------------- CLI wiring: from worker flags to the receiver
#
# the acknowledge type selected with --ack-type (any case; default when_saved) is the one the worker's receiver uses.  Flags are parsed with the real WorkerArgs.from_cli and the real start_listen() builds the receiver
# (a recording subclass whose listen() returns at once).

from vt.harness import cliwire as _cliwire

_parts_core = parts
_run_core = run_case


def parts(tier: str) -> List[Part]:  # type: ignore[no-redef]
    ps = _parts_core(tier)
    ps.append(Part("cli_wiring", "given", shards=1, examples=1500 if tier == "thorough" else 150,
                   strategy=lambda: _cliwire.FLAGS.map(lambda f: {"flags": f}), soft_deadline_s=300))
    return ps


def run_case(case: Dict[str, Any]) -> Outcome:  # type: ignore[no-redef]
    if "flags" not in case:
        return _run_core(case)
    out = Outcome()
    out.clauses_checked = ["C02.b"]
    _cliwire.check(case["flags"], ['ack_type'], "C02.b", out)
    out.nontrivial = any(case["flags"].get(k) not in (None, False) for k in case["flags"])
    out.classes = ["cli_wiring"]
    return out


# ---------------------------------------------------------------- sync functions in a REAL thread pool across a shutdown
#
# A sync task function running in the worker's thread pool cannot be interrupted.  When shutdown is requested and
# wait_tasks_timeout expires while it still runs, listen() returns - but the message must stay un-acknowledged until the
# function has really finished (when_executed / when_saved).  The function blocks on a gate the harness opens only after
# listen() has returned, so the verdict depends on the ORDER of events, never on a wall-clock threshold (the configured
# timeout itself is 20-50 real milliseconds).


def pool_shutdown_cases() -> Any:
    return st.fixed_dictionaries({
        "pool_shutdown": st.just(True), "ack_type": st.sampled_from(["when_received", "when_executed", "when_executed", "when_saved", "when_saved"]),
        "W": st.sampled_from([0.0, 0.02, 0.05]), "n": st.integers(1, 2), "ack": st.sampled_from(["sync", "async"]),
        # the messages carry a (generous) timeout label, and the interpreter may treat RuntimeWarning as an error (python -W error::RuntimeWarning)
        "timeout_label": st.sampled_from([None, None, 30, "30"]), "warn_error": st.sampled_from([False, False, True]),
    })


def run_pool_shutdown(c: Dict[str, Any]) -> Outcome:
    import asyncio
    import threading
    from concurrent.futures import ThreadPoolExecutor

    from taskiq import AckableMessage, AsyncBroker
    from taskiq.acks import AcknowledgeType
    from taskiq.brokers.inmemory_broker import InmemoryResultBackend
    from taskiq.kicker import AsyncKicker
    from taskiq.receiver import Receiver

    out = Outcome()
    out.clauses_checked = ["C02.a", "C02.b"]
    n = c["n"]
    events: List[Any] = []
    gate = threading.Event()
    info: Dict[str, Any] = {}

    class QB(AsyncBroker):
        def __init__(self) -> None:
            super().__init__()
            self.q: Any = None

        async def kick(self, m: Any) -> None:
            return None

        async def listen(self):  # type: ignore[override]
            while True:
                yield await self.q.get()

    async def main() -> None:
        ex = ThreadPoolExecutor(max_workers=n + 1)
        try:
            b = QB()
            b.q = asyncio.Queue()
            b.result_backend = InmemoryResultBackend()
            b.is_worker_process = True

            def stask(k: int) -> int:
                events.append(("enter", k))
                gate.wait(20)
                events.append(("exit", k))
                return k

            stask.__module__ = __name__
            b.register_task(stask, task_name="pool.blocking")
            # one slot more than messages: a saturated worker does not notice the timeout at all (open finding C05-saturated-wait-timeout)
            r = Receiver(b, executor=ex, max_async_tasks=n + 1, run_startup=False, ack_type=AcknowledgeType(c["ack_type"]), wait_tasks_timeout=c["W"])
            finish = asyncio.Event()
            lt = asyncio.ensure_future(r.listen(finish))
            for k in range(n):
                lbl = {"timeout": c["timeout_label"]} if c.get("timeout_label") is not None else {}
                data = b.formatter.dumps(AsyncKicker("pool.blocking", b, lbl).with_task_id(f"id{k}")._prepare_message(k)).message
                if c["ack"] == "sync":
                    def ack(k: int = k) -> None:
                        events.append(("ack", k))
                else:
                    async def ack(k: int = k) -> None:  # type: ignore[misc]
                        events.append(("ack", k))
                b.q.put_nowait(AckableMessage(data=data, ack=ack))
            for _ in range(20000):
                if sum(1 for e in events if e[0] == "enter") >= n:
                    break
                await asyncio.sleep(0.0005)
            else:
                info["skip"] = "functions did not start"
                return
            finish.set()
            try:
                await asyncio.wait_for(asyncio.shield(lt), 15)
                info["returned"] = True
            except asyncio.TimeoutError:
                info["returned"] = False         # whether listen() returns is C05's question; the ack order below is still judged
            for _ in range(5):
                await asyncio.sleep(0)
            events.append(("release", None))
            gate.set()
            for _ in range(200):
                if sum(1 for e in events if e[0] == "ack") >= n and sum(1 for e in events if e[0] == "exit") >= n:
                    break
                await asyncio.get_running_loop().run_in_executor(ex, int)
                await asyncio.sleep(0.001)
            if not lt.done():
                lt.cancel()
            try:
                await lt
            except BaseException:  # noqa: BLE001
                pass
        finally:
            gate.set()
            ex.shutdown(wait=True)

    import warnings

    loop = asyncio.new_event_loop()
    loop.set_exception_handler(lambda l, ctx: None)
    try:
        with warnings.catch_warnings():
            if c.get("warn_error"):
                warnings.simplefilter("error", RuntimeWarning)
            loop.run_until_complete(main())
        pend = [t for t in asyncio.all_tasks(loop) if not t.done()]
        for t in pend:
            t.cancel()
        if pend:
            loop.run_until_complete(asyncio.gather(*pend, return_exceptions=True))
    finally:
        loop.close()
    ev = list(events)
    if info.get("skip"):
        out.classes = ["pool_shutdown", "skipped"]
        out.counters = {"skipped": 1}
        return out
    for k in range(n):
        mine = [e[0] for e in ev if e[1] == k or e[0] == "release"]
        nack = mine.count("ack")
        if nack > 1:
            out.add("C02.a", f"message {k} acknowledged {nack} times; events={mine}")
        if not nack:
            continue        # never acknowledged within the run: allowed here (redelivery), exactly-once under normal operation is the main part's clause
        ia = mine.index("ack")
        if c["ack_type"] == "when_received":
            continue        # acknowledged before the function started; nothing more to order here
        if "exit" not in mine or ia < mine.index("exit"):
            out.add("C02.b", f"{c['ack_type']}: message {k} was acknowledged while its sync task function was still running in the thread pool "
                             f"(shutdown requested, wait_tasks_timeout={c['W']} expired); events={mine} - a worker exit now loses the message")
    out.nontrivial = c["ack_type"] != "when_received"
    out.classes = ["pool_shutdown", "ack_type=" + c["ack_type"], "listen_returned" if info.get("returned") else "listen_still_running"] + \
                  (["timeout_label_on_sync_task"] if c.get("timeout_label") is not None else []) + (["runtime_warnings_are_errors"] if c.get("warn_error") else [])
    out.trace = {"events": [list(e) for e in ev][:20]}
    return out


_parts_core2 = parts
_run_core2 = run_case


def parts(tier: str) -> List[Part]:  # type: ignore[no-redef]
    return _parts_core2(tier) + [Part("pool_shutdown", "given", shards=4, examples=400 if tier == "thorough" else 25,
                                      strategy=pool_shutdown_cases, soft_deadline_s=900 if tier == "thorough" else 100)]


def run_case(case: Dict[str, Any]) -> Outcome:  # type: ignore[no-redef]
    return run_pool_shutdown(case) if case.get("pool_shutdown") else _run_core2(case)


# ---------------------------------------------------------------- sync functions through a real thread pool, all outcomes
#
# Same harness as C07's `sync_pool` part (real ThreadPoolExecutor, completion detected with barrier jobs, no wall-clock verdict): an
# execution that never completes (an outcome that cannot travel from the pool's future into the loop's) is a message whose acknowledge
# callback is never called although its task function has finished.

from vt.props import c07 as _c07

_parts_core2b, _run_core2b = parts, run_case


def parts(tier: str) -> List[Part]:  # type: ignore[no-redef]
    n = 600 if tier == "thorough" else 60
    return _parts_core2b(tier) + [Part("sync_pool", "given", shards=2, examples=n, strategy=_c07.pool_cases, soft_deadline_s=900 if tier == "thorough" else 100)]


def run_case(case: Dict[str, Any]) -> Outcome:  # type: ignore[no-redef]
    if not case.get("pool"):
        return _run_core2b(case)
    inner = _c07.run_pool_case(case)
    out = Outcome()
    out.clauses_checked = ["C02.a"]
    for v in inner.violations:
        if "never completed" in v.detail:
            out.add("C02.a", v.detail + " - its message is never acknowledged (0 acks) although the task function finished")
    out.nontrivial, out.classes, out.trace = inner.nontrivial, inner.classes, inner.trace
    return out
