"""C14 - a one-shot schedule is never sent early and at most one second late."""
from __future__ import annotations

import datetime as dtm
import zoneinfo
from typing import Any, Dict, List

import pytz
from hypothesis import strategies as st

from taskiq.scheduler.scheduled_task import ScheduledTask

from vt.core.engine import Outcome, Part
from vt.harness import clock

PID = "C14"
RULE = (
    "Hypothesis draws `now` (2020-2030, microsecond resolution; half of the cases pinned to second 0/1/58/59 with "
    "microsecond 0/1/500000/999999) and a target T = now + delta with delta drawn from {0, +-1 us, whole seconds +-1 us, "
    "distance to the horizon (next minute boundary + 1 s) +-1 us, the minute boundary +-1 us} (40%), [-5 s, 70 s] (35%) "
    "or +-2 days (25%); T is presented naive (UTC wall time), in UTC, with a fixed offset (+-hh:mm[:ss]), or in a zoneinfo / "
    "pytz zone. Oracle in integer microseconds since the epoch: T <= now => 0; T > horizon => None; otherwise the "
    "result is an int d with T <= now + d*10^6 < T + 10^6. Non-trivial: |delta - k s| <= 1 us for an integer k, or T "
    "within 2 us of the horizon, or now within 1 ms of a minute boundary; distinct = canonical JSON. Part 'loop_runs' observes the same rule through the real run_scheduler_loop on the virtual-time loop: "
    "1-2 scripted sources that take 0-3.3 s to answer a listing, one-shots with T around the start / completion of a listing; every send must be at an instant s with "
    "T <= s, and s < T + 1 s unless s is the instant a listing completed (T had already passed when the schedule was first evaluated). Non-trivial there: a T that falls between the start and the completion of a listing."
    " loop_runs optionally adds a batch of 40-400 one-shots falling due within one minute: each is sent at its own T."
)
ASSUMPTIONS = ["the check process runs with TZ=Asia/Kathmandu so that any dependence on the local zone shows", "the controlled clock replaces taskiq.cli.scheduler.run.datetime"]

ZONES = ["Europe/Berlin", "Asia/Kathmandu", "America/New_York", "Australia/Lord_Howe", "Pacific/Apia"]
N0 = clock.to_us(dtm.datetime(2020, 1, 1, tzinfo=clock.UTC))
N1 = clock.to_us(dtm.datetime(2030, 1, 1, tzinfo=clock.UTC))
MIN = 60 * 10**6
SEC = 10**6


def cases() -> Any:
    def fin(d: Dict[str, Any]) -> Dict[str, Any]:
        now = d["now"]
        anc = d.pop("anchor")
        if anc is not None and d["tz"].get("name"):
            # `now` inside the hour BEFORE a daylight-saving transition of T's own zone (in autumn: the first pass through the repeated hour)
            from vt.props import c13

            trs = [t_ for t_ in c13.transitions(d["tz"]["name"]) if N0 <= t_ <= N1]
            if trs:
                now = trs[anc["k"] % len(trs)] - anc["back_s"] * SEC + d["pus"]
        elif d["pin"]:
            now = now // MIN * MIN + d["psec"] * SEC + d["pus"]
        nb = (now // MIN + 1) * MIN
        kind, v = d["delta"]
        if kind == "edge":
            table = [0, 1, -1, SEC, SEC - 1, SEC + 1, nb + SEC - now, nb + SEC + 1 - now, nb + SEC - 1 - now, nb - now, nb - now + 1,
                     nb - now - 1, 2 * SEC, 59 * SEC, 60 * SEC, 61 * SEC, 61 * SEC + 1, -SEC]
            delta = table[v % len(table)] + d["whole"] * SEC * d["usewhole"]
        else:
            delta = v
        return {"now_us": now, "delta_us": delta, "tz": d["tz"], "coff": d["coff"]}

    tzs = st.one_of(
        st.just({"k": "naive"}), st.just({"k": "utc"}),
        st.fixed_dictionaries({"k": st.just("fixed"), "sec": st.one_of(
            st.integers(-14 * 60, 14 * 60).map(lambda m: m * 60), st.integers(-86399, 86399))}),
        st.fixed_dictionaries({"k": st.just("zoneinfo"), "name": st.sampled_from(ZONES)}),
        st.fixed_dictionaries({"k": st.just("pytz"), "name": st.sampled_from(ZONES)}),
        # the (common) pytz mistake: the zone is attached with tzinfo= instead of localize(): Python then uses the zone's first
        # (local mean time) offset - whatever instant that denotes is the instant the value is compared as
        st.fixed_dictionaries({"k": st.just("pytz_attached"), "name": st.sampled_from(ZONES + ["Europe/Warsaw", "Europe/Amsterdam"])}),
    )
    return st.fixed_dictionaries({
        "now": st.integers(N0, N1),
        "pin": st.booleans(), "psec": st.sampled_from([0, 0, 1, 58, 59, 59, 30]), "pus": st.sampled_from([0, 1, 500_000, 999_999, 999]),
        "delta": st.one_of(
            st.tuples(st.just("edge"), st.integers(0, 17)), st.tuples(st.just("edge"), st.integers(0, 17)),
            st.tuples(st.just("near"), st.integers(-5 * SEC, 70 * SEC)), st.tuples(st.just("near"), st.integers(-5, 70).map(lambda s: s * SEC)),
            st.tuples(st.just("far"), st.integers(-2 * 86400 * SEC, 2 * 86400 * SEC))),
        "whole": st.integers(-3, 50), "usewhole": st.sampled_from([0, 0, 1]),
        "anchor": st.one_of(st.none(), st.none(), st.fixed_dictionaries({"k": st.integers(0, 60), "back_s": st.integers(1, 3599)})),
        "tz": tzs,
        # a `cron_offset` on a schedule that has a `time` (the label source copies it from the entry): it belongs to cron
        # expressions and must not move the instant a one-shot is compared with
        "coff": st.one_of(st.none(), st.none(), st.none(), st.sampled_from([{"td_s": 3600}, {"td_s": -3600}, {"td_s": 7}, {"td_s": -90}, {"td_s": 86400}, {"zone": "Asia/Kolkata"}, {"zone": "UTC"}])),
    }).map(fin)


def parts(tier: str) -> List[Part]:
    if tier == "thorough":
        return [Part("inputs", "given", shards=16, examples=100000, strategy=cases, soft_deadline_s=1500)]
    return [Part("inputs", "given", shards=8, examples=8000, strategy=cases, soft_deadline_s=100)]


def present(T: dtm.datetime, tz: Dict[str, Any]) -> dtm.datetime:
    k = tz["k"]
    if k == "naive":
        return T.replace(tzinfo=None)
    if k == "utc":
        return T
    if k == "fixed":
        return T.astimezone(dtm.timezone(dtm.timedelta(seconds=tz["sec"])))
    if k == "zoneinfo":
        return T.astimezone(zoneinfo.ZoneInfo(tz["name"]))
    if k == "pytz_attached":
        z = pytz.timezone(tz["name"])
        return T.astimezone(z).replace(tzinfo=None).replace(tzinfo=z)
    return T.astimezone(pytz.timezone(tz["name"]))


def run_case(case: Dict[str, Any]) -> Outcome:
    from taskiq.cli.scheduler import run as R

    out = Outcome()
    out.clauses_checked = ["C14.a", "C14.b", "C14.c"]
    n, delta = case["now_us"], case["delta_us"]
    t = n + delta
    T = present(clock.from_us(t), case["tz"])
    if case["tz"]["k"] == "pytz_attached":
        t = clock.to_us(T)          # the instant the presented value really denotes
        delta = t - n
    coff = case.get("coff")
    co: Any = None if not coff else (dtm.timedelta(seconds=coff["td_s"]) if "td_s" in coff else coff["zone"])
    task = ScheduledTask(task_name="t", labels={}, args=[], kwargs={}, time=T, cron_offset=co)
    clock.install()
    try:
        clock.FakeDT.cur = clock.from_us(n)
        clock.FakeDT.source = None
        got = R.get_task_delay(task)
        # the SAME schedule object gets another time (a source that keeps its schedules and re-times them, model_copy(update=...)) and is
        # evaluated again: the answer is the one a freshly built schedule with that time gets
        T2 = T + dtm.timedelta(days=1) if (n + delta) % 2 == 0 else T - dtm.timedelta(hours=2)
        again: Any = "n/a"
        fresh: Any = "n/a"
        try:
            moved = task.model_copy(update={"time": T2}) if (n // 7) % 2 == 0 else task
            if moved is task:
                task.time = T2
            again = R.get_task_delay(moved)
            fresh = R.get_task_delay(ScheduledTask(task_name="t", labels={}, args=[], kwargs={}, time=T2, cron_offset=co))
        except Exception as e:  # noqa: BLE001
            again = f"raised {type(e).__name__}: {e}"
    finally:
        clock.uninstall()
    if again != fresh or type(again) is not type(fresh):
        out.add("C14.c", f"now={clock.from_us(n).isoformat()}: a schedule evaluated once with T={T.isoformat()} and then given T={T2.isoformat()} gets delay={again!r}; "
                         f"a fresh schedule with that time gets {fresh!r}")
    nb = (n // MIN + 1) * MIN
    horizon = nb + SEC
    desc = f"now={clock.from_us(n).isoformat()} T={T.isoformat()} (T-now={delta} us, horizon-now={horizon - n} us)" + (f" cron_offset={co!r}" if co is not None else "")
    if t <= n:
        cls = "past"
        if got != 0 or type(got) is not int:
            out.add("C14.a", f"{desc}: T is not in the future but delay={got!r} (expected 0)")
    elif t > horizon:
        cls = "later_poll"
        if got is not None:
            out.add("C14.b", f"{desc}: T lies more than 1 s past the next minute boundary but delay={got!r} (expected None)")
    else:
        cls = "delayed"
        if type(got) is not int:
            out.add("C14.c", f"{desc}: delay={got!r} is not an int")
        elif not (t <= n + got * SEC):
            out.add("C14.c", f"{desc}: delay={got} s would send {t - (n + got * SEC)} us EARLY")
        elif not (n + got * SEC < t + SEC):
            out.add("C14.c", f"{desc}: delay={got} s would send {(n + got * SEC) - t} us late (>= 1 s)")
    edge = min(abs(delta) % SEC, SEC - abs(delta) % SEC) <= 1
    near_h = abs(t - horizon) <= 2
    near_b = min(n % MIN, MIN - n % MIN) <= 1000
    out.nontrivial = bool(edge or near_h or near_b)
    out.classes = [cls, "tz:" + case["tz"]["k"]] + (["has_cron_offset"] if coff else []) + [c for c, f in (("whole_second_edge", edge), ("near_horizon", near_h), ("now_near_boundary", near_b)) if f]
    out.trace = {"got": got, "T": T.isoformat()}
    return out


# ---------------------------------------------------------------------------------------------------------------
# the same rule observed through the real scheduler loop: sources that need time to answer a listing


def loop_runs() -> Any:
    def fin(d: Dict[str, Any]) -> Dict[str, Any]:
        base = d["base"] // MIN * MIN + d["bsec"] * SEC + d["bus"]
        m0 = base // MIN * MIN
        sources = []
        for si, (lat, shots) in enumerate(d["sources"]):
            ents = []
            for j, (k, delta, naive, add_at) in enumerate(shots):
                poll_start = base if k == 0 else m0 + k * MIN
                ents.append({"id": f"o{si}_{j}", "t_off_us": poll_start + delta - base, "naive": naive, "add_at": min(add_at, k), "remove_at": None,
                             **({"via_api": True} if d["via_api"] and (si + j) % 2 == 0 else {})})      # created through schedule_by_time()
            if d["dup"] and ents:
                # a second schedule of its own id with the same task, time and arguments as the first (scheduled twice): both are sent on time
                ents.append({**ents[0], "id": ents[0]["id"] + "d", "tag": ents[0]["id"]})
            if si == 0 and d["bulk"]:
                # a big batch of one-shots that become due within the same minute (a campaign scheduled in one go): each is still sent at its own T
                n, gap = d["bulk"]
                for j in range(n):
                    ents.append({"id": f"b{j}", "t_off_us": m0 + MIN + 5 * SEC + j * gap - base, "naive": False, "add_at": 0, "remove_at": None})
            sources.append({"kind": "scripted", "entries": ents, "fail_polls": [], "list_latency": lat})
        return {"loop": True, "base_us": base, "horizon_min": 3, "sources": sources, "latencies": [0.0], "kick_fail": []}

    shot = st.tuples(st.integers(0, 2),
                     st.one_of(st.integers(-2 * SEC, 4 * SEC), st.sampled_from([0, 1, -1, SEC, SEC // 2, 2 * SEC + SEC // 2, 3 * SEC - 1])),
                     st.booleans(), st.integers(0, 2))
    return st.fixed_dictionaries({
        "base": st.integers(clock.to_us(dtm.datetime(2024, 1, 1, tzinfo=clock.UTC)), clock.to_us(dtm.datetime(2026, 1, 1, tzinfo=clock.UTC))),
        "bsec": st.sampled_from([0, 12, 30, 57, 59]), "bus": st.sampled_from([0, 1, 500_000, 999_999]),
        "sources": st.lists(st.tuples(st.sampled_from([0.0, 0.0, 0.4, 1.0, 2.5, 3.3]), st.lists(shot, min_size=1, max_size=3)), min_size=1, max_size=2),
        "dup": st.sampled_from([False, False, True]),
        "via_api": st.sampled_from([False, True]),
        "bulk": st.sampled_from([None] * 9 + [(40, SEC), (150, 300_000), (260, 200_000), (400, 0)]),
    }).map(fin)


def run_loop_case(case: Dict[str, Any]) -> Outcome:
    from vt.harness import sched

    out = Outcome()
    out.clauses_checked = ["C14.c"]
    res = sched.run_sched(case)
    if res["crashed"] or res["deadlock"]:
        out.add("C14.c", f"the scheduler loop stopped: {res['loop_exc']}")
        return out
    base = case["base_us"]
    polls = list(res["polls"].values())
    n_pass = min(len(p) for p in polls)
    starts = [min(p[j]["t"] for p in polls) for j in range(n_pass)]
    evals = [max(p[j].get("ret", p[j]["t"]) for p in polls) for j in range(n_pass)]     # the listing of pass j is complete
    target = {e["id"]: base + e["t_off_us"] for s in case["sources"] for e in s["entries"]}
    in_flight = False
    for T in target.values():
        in_flight = in_flight or any(starts[j] < T <= evals[j] for j in range(n_pass))
    want_n: Dict[str, int] = {}
    first_seen: set = set()
    for s_ in case["sources"]:
        for e in s_["entries"]:
            want_n[e.get("tag", e["id"])] = want_n.get(e.get("tag", e["id"]), 0) + 1
    for k in res["kicks"]:
        T = target.get(k["tag"])
        if T is None:
            continue
        desc = (f"[{want_n[k['tag']]} schedules with distinct ids share this task, time and arguments] " if want_n.get(k["tag"], 1) > 1 else "") + f"one-shot {k['tag']} T={clock.from_us(T).isoformat()} sent at T{(k['t'] - T) / 1e6:+.6f} s; listings completed at " \
               f"{[clock.from_us(e).time().isoformat() for e in evals]} (latencies {[s['list_latency'] for s in case['sources']]})"
        if k["t"] < T - 2:
            out.add("C14.c", desc + ": EARLY")
        elif k["t"] >= T + SEC and not any(abs(k["t"] - e) <= 2 for e in evals):
            out.add("C14.c", desc + ": a second or more late although it was not sent straight from an evaluation")
        elif k["sid"] not in first_seen:
            first_seen.add(k["sid"])        # (a repeated send of the same id - stale listing of a slow source - is C15's subject, not a late send)
            # per schedule id: the first completed listing that contained it and whose look-ahead window reaches T fixes the deadline
            dl = None
            for sname, pl in res["polls"].items():
                for j, p_ in enumerate(pl[:n_pass]):
                    if k["sid"] in p_["listed"] and T <= (evals[j] + MIN) // MIN * MIN + SEC:
                        cand = max(T, evals[j]) + SEC
                        dl = cand if dl is None else min(dl, cand)
            if dl is not None and k["t"] >= dl + 2:
                out.add("C14.c", desc + f": schedule id {k['sid']} was listed in time, yet sent {(k['t'] - dl) / 1e6 + 1:.3f} s after max(T, listing)")
    out.nontrivial = in_flight
    out.classes = ["loop"] + (["due_while_listing_in_flight"] if in_flight else []) + \
                  (["slow_source"] if any(s["list_latency"] for s in case["sources"]) else []) + \
                  (["duplicate_schedules"] if any(v > 1 for v in want_n.values()) else []) + (["bulk_batch_over_100"] if sum(len(s["entries"]) for s in case["sources"]) > 100 else [])
    out.trace = {"kicks": [[k["tag"], k["t"] - base] for k in res["kicks"]], "evals": [e - base for e in evals]}
    return out


# ---------------------------------------------------------------------------------------------------------------
# the two passes through a repeated hour: same wall-clock reading, same tzinfo object, fold 0 and fold 1 - two instants an
# hour apart.  Both are evaluated in ONE process, one right after the other, each against its own `now`.


def fold_pairs() -> Any:
    return st.fixed_dictionaries({
        "pair": st.just(True), "zone": st.sampled_from(["Europe/Berlin", "America/New_York", "Australia/Lord_Howe"]),
        "k": st.integers(0, 60), "into_us": st.integers(0, 1800 * SEC - 1), "order": st.sampled_from([[0, 1], [1, 0]]),
        "lead_us": st.sampled_from([0, 1, SEC, 5 * SEC + 250_000, 30 * SEC, 55 * SEC + 1, 61 * SEC, -SEC]),
    })


def run_pair_case(case: Dict[str, Any]) -> Outcome:
    from taskiq.cli.scheduler import run as R
    from vt.props import c13

    out = Outcome()
    out.clauses_checked = ["C14.a", "C14.b", "C14.c"]
    z = zoneinfo.ZoneInfo(case["zone"])
    falls = []
    for tr in c13.transitions(case["zone"]):
        if N0 <= tr <= N1:
            before = clock.from_us(tr - 1).astimezone(z).utcoffset()
            after = clock.from_us(tr).astimezone(z).utcoffset()
            if before is not None and after is not None and after < before:
                falls.append((tr, int((before - after).total_seconds()) * SEC))
    if not falls:
        out.classes = ["fold_pair", "no_fall_back_found"]
        return out
    tr, rep = falls[case["k"] % len(falls)]
    into = case["into_us"] % rep
    inst = [tr - rep + into, tr + into]                      # first pass, second pass: same wall clock reading
    Ts = [clock.from_us(t).astimezone(z) for t in inst]
    if Ts[0].replace(fold=0) != Ts[1].replace(fold=0) or (Ts[0].fold, Ts[1].fold) != (0, 1) or Ts[0].tzinfo is not Ts[1].tzinfo:
        out.classes = ["fold_pair", "skipped_not_a_pair"]
        return out
    clock.install()
    try:
        for i in case["order"]:
            t = inst[i]
            n = t - case["lead_us"]
            clock.FakeDT.cur = clock.from_us(n)
            clock.FakeDT.source = None
            got = R.get_task_delay(ScheduledTask(task_name="t", labels={}, args=[], kwargs={}, time=Ts[i]))
            horizon = (n // MIN + 1) * MIN + SEC
            desc = f"T={Ts[i].isoformat()} fold={Ts[i].fold} (= {clock.from_us(t).isoformat()}) evaluated at now={clock.from_us(n).isoformat()} as #{case['order'].index(i) + 1} of the pair"
            if t <= n:
                if got != 0:
                    out.add("C14.a", f"{desc}: T is not in the future but delay={got!r}")
            elif t > horizon:
                if got is not None:
                    out.add("C14.b", f"{desc}: T lies beyond the poll horizon but delay={got!r}")
            elif type(got) is not int or not (t <= n + got * SEC < t + SEC):
                out.add("C14.c", f"{desc}: delay={got!r}, expected d with T <= now + d < T + 1 s")
    finally:
        clock.uninstall()
    out.nontrivial = True
    out.classes = ["fold_pair", "zone:" + case["zone"]]
    return out


_base_parts, _base_run = parts, run_case


def parts(tier: str) -> List[Part]:  # type: ignore[no-redef]
    n = 2500 if tier == "thorough" else 200
    return _base_parts(tier) + [Part("loop_runs", "given", shards=8, examples=n, strategy=loop_runs, soft_deadline_s=1500 if tier == "thorough" else 100),
                                Part("fold_pairs", "given", shards=2, examples=20000 if tier == "thorough" else 1500, strategy=fold_pairs, soft_deadline_s=900 if tier == "thorough" else 100)]


def run_case(case: Dict[str, Any]) -> Outcome:  # type: ignore[no-redef]
    if case.get("pair"):
        return run_pair_case(case)
    return run_loop_case(case) if case.get("loop") else _base_run(case)


SELFTEST_CASES = [{"now_us": N0 + 59_999_999, "delta_us": 1_000_001, "tz": {"k": "naive"}}]
