"""C01 - every message taken from the broker is executed exactly once."""
from __future__ import annotations

import copy
from typing import Any, Dict, List

from hypothesis import strategies as st

from vt.core.engine import Outcome, Part
from vt.harness import worker as wh
from vt.props import common as cm

PID = "C01"
RULE = (
    "Hypothesis-generated worker scenarios on the virtual-time loop: 1-9 messages (well-formed async/sync tasks, a task of a shared broker, a task with a parameter annotated by a plain class (no pydantic schema) that gets a value, a task registered only after the receiver was built, a task registered while the worker is already running (messages for it taken earlier are unknown-task messages), "
    "a timeout label given as a number or as a string, malformed payloads of 9 shapes, unknown task under look-alike names), arrival instants on a 0.05 s grid plus points on/around the "
    "receiver's 0.3 s poll grid, durations 0-3 s, A in 1..4|None, P in 0..4, N in None|1..5, stop instant anywhere "
    "or absent, stream ending or blocking. Oracle over the trace of the real Receiver.listen(): per well-formed "
    "taken message exactly one task-function entry; none for skipped ones; listen() raises nothing; removing the "
    "skipped messages leaves the executed multiset unchanged (metamorphic, N=None/no stop). "
    "Non-trivial: >=1 message taken-but-unfinished when the stop / N-th take happens, or valid and skipped "
    "messages mixed; distinct = distinct canonical JSON of the scenario."
)
ASSUMPTIONS = [
    "virtual-time SelectorEventLoop; sync tasks run inline (zero virtual duration)",
    "the broker is scripted: a message counts as taken when listen() yields it",
    "wait_tasks_timeout=None (the drain rule is C05's)",
]


def scenario(big: bool = False) -> Any:
    """big=True (thorough tier): wider configuration and longer message sequences."""
    def fin(d: Dict[str, Any]) -> Dict[str, Any]:
        d["msgs"] = cm.sort_msgs(d["msgs"])
        if not d.pop("has_stop"):
            d["stop"] = None
        # N-focused family: backlog ready at once so the look-ahead completes early
        if d.pop("burst"):
            for m in d["msgs"]:
                m["at"] = 0.0
        if d.pop("api_restart"):
            # the worker is run with taskiq.api.run_receiver_task; while it is idle the broker subscription breaks A times in a
            # row (the runner subscribes again each time), then more messages arrive: every one still runs exactly once
            A = d["A"] or 2
            good = [m for m in d["msgs"] if m["kind"] in ("async", "sync")][:6] or [{"kind": "async", "at": 0.0, "dur": 0.1, "out": "ret", "ack": "sync", "timeout": None}]
            first, second = good[: max(1, len(good) // 2)], good[max(1, len(good) // 2):] or [dict(good[0])]
            for m in first:
                m["at"], m["dur"], m["timeout"] = min(m["at"], 0.5), min(m["dur"], 0.35), None
                m.pop("cleanup", None)
            for j, m in enumerate(second):
                m["at"], m["timeout"] = 5.0 + 0.1 * j, None
            d["msgs"] = first + second
            d.update({"A": A, "N": None, "stop": None, "ends": False, "via_api": True, "stream_fault": [len(first)] * min(A, 3)})
        d["horizon"] = cm.horizon_for(d)
        d["drain"] = 0.0
        if d.pop("late_labels"):
            # some messages carry a label that was added after the client computed the label types (pre_send middleware,
            # foreign producer): labels_types is present but does not cover it - still an ordinary, well-formed message
            for j, m in enumerate(d["msgs"]):
                if j % 2 == 0 and m["kind"] not in ("bad", "unknown"):
                    m["late_labels"] = {"trace": f"t{j}"}
        if d.pop("same_ids"):
            # several messages carry the task id of an earlier one (a redelivery, a retry / requeue keeps the id, a client re-using ids):
            # each is a message of its own and runs once, also while the other one is still running
            first = next((j for j, m in enumerate(d["msgs"]) if m["kind"] in ("async", "sync")), None)
            if first is not None:
                for j, m in enumerate(d["msgs"]):
                    if j > first and j % 2 == (first + 1) % 2 and m["kind"] in ("async", "sync"):
                        m["dup_of"] = first
        kn = d.pop("kwnames")
        if kn:
            for j, m in enumerate(d["msgs"]):
                if m["kind"] in ("async", "sync") and j % 2 == 1:
                    m["kwnames"] = kn       # keyword arguments named like the worker's own plumbing (target, args, kwargs)
        ex = d.pop("extra_args")
        if ex:
            for j, m in enumerate(d["msgs"]):
                if m["kind"] in ("async", "sync") and j % 2 == 0:
                    m["extra"] = ex
        ph = d.pop("pre_hook")
        if ph is not None:
            d["mws"] = [{"pre_execute": {"async": ph, "fail_on": []}}]
        return d

    return st.fixed_dictionaries({
        "A": st.sampled_from([1, 1, 2, 3, 4, None] + ([5, 6, 8] if big else [])),
        "P": st.integers(0, 7 if big else 4),
        "N": st.sampled_from([None, None, 1, 2, 3, 4, 5] + ([6, 8, 11] if big else [])),
        "msgs": st.lists(cm.message(kinds=("async", "async", "async", "sync", "bad", "unknown", "shared", "late", "dyn", "dyn", "plaincls", "collide"), timeouts=(None, None, None, None, 3, "3", "0.35", 1.5, "5")), min_size=1, max_size=16 if big else 9),
        "stop": cm.times(),
        "has_stop": st.booleans(),
        "ends": st.booleans(),
        "burst": st.sampled_from([False, False, True]),
        "ack_type": st.sampled_from(["when_received", "when_executed", "when_saved"]),
        "register_at": cm.times(),
        # an observing pre_execute middleware written as a sync function, an async one, or a plain function returning a coroutine /
        # a Future / another awaitable (all allowed by the hook's signature): messages still run exactly once
        "pre_hook": st.sampled_from([None, None, None, False, True, "deferred", "future", "awaitable"]),
        "api_restart": st.sampled_from([False] * 7 + [True]),
        "late_labels": st.sampled_from([False, False, True]),
        "same_ids": st.sampled_from([False, False, False, True]),
        "kwnames": st.sampled_from([None, None, None, ["target"], ["args", "kwargs"], ["target", "kwargs"]]),
        # an additional keyword argument of an unusual but legal value (lone surrogate, 250 levels of nesting, 2**80, emoji)
        "extra_args": st.sampled_from([None, None, None, "surrogate", "deep", "bigint", "emoji"]),      # instant at which the task `dyntask` gets registered on the running worker
    }).map(fin)


def parts(tier: str) -> List[Part]:
    if tier == "thorough":
        return [Part("scenarios", "given", shards=16, examples=15000, strategy=lambda: scenario(True), soft_deadline_s=3000)]
    return [Part("scenarios", "given", shards=8, examples=350, strategy=scenario, soft_deadline_s=120)]


def _enters(trace: List[Any]) -> Dict[Any, int]:
    c: Dict[Any, int] = {}
    for t, kind, m, kw in trace:
        if kind == "enter":
            c[m] = c.get(m, 0) + 1
    return c


def run_case(sc: Dict[str, Any]) -> Outcome:
    out = Outcome()
    specs = sc["msgs"]
    res = wh.run_worker(sc)
    tr = res["trace"]
    out.trace = wh.brief_trace(tr)
    out.clauses_checked = ["C01.a", "C01.b", "C01.c"]
    if res["deadlock"]:
        out.add("C01.c", "virtual loop deadlock: " + res.get("deadlock_msg", ""))
    if res["listen_exc"]:
        out.add("C01.c", "listen() raised " + res["listen_exc"])
    enters = _enters(tr)
    taken = [m for t, kind, m, kw in tr if kind == "take"]
    ireg = next((n for n, e in enumerate(tr) if e[1] == "registered"), None)
    takepos = {e[2]: n for n, e in enumerate(tr) if e[1] == "take"}
    for i in taken:
        n = enters.get(i, 0)
        if specs[i]["kind"] == "dyn":
            # known only from its registration on: taken before -> legitimately skipped (at most once, though);
            # taken after -> exactly once like any other task.  Same instant: either.
            if ireg is None or takepos[i] < ireg or abs(tr[takepos[i]][0] - tr[ireg][0]) < 1e-9:
                if n > 1:
                    out.add("C01.b", f"message {i} executed {n} times")
                continue
        if wh.is_good(specs[i]):
            if n == 0:
                out.add("C01.a", f"message {i} was taken at the broker but its task function never ran")
            elif n > 1:
                out.add("C01.b", f"message {i} executed {n} times")
        elif n:
            out.add("C01.c", f"skipped message {i} ({specs[i]['kind']}) was executed")
    for i in enters:
        if i not in taken:
            out.add("C01.b", f"message {i} executed without being taken")

    # classification
    kinds = {sp["kind"] for sp in specs}
    mixed = bool(kinds & {"bad", "unknown"}) and bool(kinds & {"async", "sync"})
    decision = None
    if sc.get("N"):
        tk = [n for n, e in enumerate(tr) if e[1] == "take"]
        if len(tk) >= sc["N"]:
            decision = tk[sc["N"] - 1]
    if decision is None and sc.get("stop") is not None:
        decision = next((n for n, e in enumerate(tr) if e[1] == "stop"), None)
    inflight = 0
    lookahead_done = False
    if decision is not None:
        seen_take, finished = set(), set()
        last_pos = {}
        for n, e in enumerate(tr):
            if e[2] is not None and e[1] != "take":
                last_pos[e[2]] = n
        for n, e in enumerate(tr[: decision + 1]):
            if e[1] == "take":
                seen_take.add(e[2])
        inflight = sum(1 for m in seen_take if last_pos.get(m, 10**9) > decision and wh.is_good(specs[m]))
        lookahead_done = any(e[1] == "take" for e in tr[decision + 1:])
    out.nontrivial = bool(inflight or mixed)
    out.classes = [c for c, f in (("inflight_at_decision", inflight), ("mixed_valid_skipped", mixed),
                                  ("take_after_decision", lookahead_done), ("has_N", sc.get("N")), ("messages_sharing_a_task_id", any("dup_of" in sp for sp in specs)),
                                  ("has_stop", sc.get("stop") is not None), ("returned", res["returned"]), ("run_receiver_task_resubscribes", bool(sc.get("via_api"))),
                                  ("dyn_before_and_after_registration", ireg is not None and any(specs[i]["kind"] == "dyn" and takepos[i] < ireg for i in taken)
                                   and any(specs[i]["kind"] == "dyn" and takepos[i] > ireg for i in taken))) if f]

    # metamorphic C01.d
    if sc.get("N") is None and sc.get("stop") is None and sc.get("ends") and mixed and not out.violations:
        out.clauses_checked.append("C01.d")
        sc2 = copy.deepcopy(sc)
        keep = [i for i, sp in enumerate(specs) if wh.is_good(sp)]
        sc2["msgs"] = [copy.deepcopy(specs[i]) for i in keep]
        res2 = wh.run_worker(sc2)
        e2 = _enters(res2["trace"])
        a = sorted((keep.index(i), n) for i, n in enters.items() if i in keep)
        b = sorted(e2.items())
        if a != b:
            out.add("C01.d", f"executions changed when skipped messages were removed: with={a} without={b}")
    return out


SELFTEST_CASES = [{
    "A": 1, "P": 0, "N": None, "stop": 1.0, "ends": False, "ack_type": "when_saved", "horizon": 10.0, "drain": 0.0,
    "msgs": [{"kind": "async", "at": 0.0, "dur": 0.3, "out": "ret", "ack": "sync", "timeout": None},
             {"kind": "bad", "at": 0.1, "dur": 0.0, "out": "ret", "ack": None, "timeout": None, "bad": {"v": "null"}}],
}]


# ---------------------------------------------------------------- sync task functions that overlap in a REAL thread pool
#
# "exactly once" also for plain `def` task functions, which the worker hands to its executor: 2-4 of them are in the pool at the same
# time (each blocks on a gate the harness opens once all have started or all deliveries have ended).  Real event loop + real
# ThreadPoolExecutor; the verdict is the count of function entries per message, no wall-clock threshold.

def pool_overlap_cases() -> Any:
    return st.fixed_dictionaries({"pool_overlap": st.just(True), "n": st.integers(2, 4), "A": st.sampled_from([None, 4, 8]),
                                  "threads": st.sampled_from([4, 6]), "via": st.sampled_from(["callback", "listen"])})


def run_pool_overlap(c: Dict[str, Any]) -> Outcome:
    import asyncio
    import threading
    from concurrent.futures import ThreadPoolExecutor

    from taskiq import AsyncBroker
    from taskiq.brokers.inmemory_broker import InmemoryResultBackend
    from taskiq.kicker import AsyncKicker
    from taskiq.receiver import Receiver

    out = Outcome()
    out.clauses_checked = ["C01.a", "C01.b"]
    n = c["n"]
    entries: List[int] = []
    gate = threading.Event()
    info: Dict[str, Any] = {}

    class QB(AsyncBroker):
        def __init__(self) -> None:
            super().__init__()
            self.q: Any = None

        async def kick(self, m: Any) -> None:
            return None

        async def listen(self):  # type: ignore[override]
            while True:
                yield await self.q.get()

    async def main() -> None:
        ex = ThreadPoolExecutor(max_workers=c["threads"])
        try:
            b = QB()
            b.q = asyncio.Queue()
            b.result_backend = InmemoryResultBackend()
            b.is_worker_process = True

            def stask(k: int) -> int:
                entries.append(k)
                gate.wait(20)
                return k

            stask.__module__ = __name__
            b.register_task(stask, task_name="pool.overlap")
            r = Receiver(b, executor=ex, max_async_tasks=c["A"], run_startup=False)
            datas = [b.formatter.dumps(AsyncKicker("pool.overlap", b, {}).with_task_id(f"id{k}")._prepare_message(k)).message for k in range(n)]
            finish = asyncio.Event()
            lt = None
            if c["via"] == "listen":
                lt = asyncio.ensure_future(r.listen(finish))
                for d_ in datas:
                    b.q.put_nowait(d_)
                tasks: List[Any] = []
            else:
                tasks = [asyncio.ensure_future(r.callback(d_)) for d_ in datas]
            for _ in range(20000):
                if len(set(entries)) >= n or (tasks and all(t.done() for t in tasks)):
                    break
                if lt is not None and await b.result_backend.is_result_ready(f"id{n - 1}") and all([await b.result_backend.is_result_ready(f"id{k}") for k in range(n)]):
                    break       # every message has been dealt with one way or the other
                await asyncio.sleep(0.0005)
            gate.set()
            if tasks:
                await asyncio.gather(*tasks, return_exceptions=True)
            else:
                for _ in range(20000):
                    if all([await b.result_backend.is_result_ready(f"id{k}") for k in range(n)]):
                        break
                    await asyncio.sleep(0.0005)
                finish.set()
                try:
                    await asyncio.wait_for(lt, 15)
                except BaseException:  # noqa: BLE001
                    info["listen_problem"] = True
        finally:
            gate.set()
            ex.shutdown(wait=True)

    loop = asyncio.new_event_loop()
    loop.set_exception_handler(lambda l, ctx: None)
    try:
        loop.run_until_complete(main())
        pend = [t for t in asyncio.all_tasks(loop) if not t.done()]
        for t in pend:
            t.cancel()
        if pend:
            loop.run_until_complete(asyncio.gather(*pend, return_exceptions=True))
    finally:
        loop.close()
    for k in range(n):
        cnt = entries.count(k)
        if cnt == 0:
            out.add("C01.a", f"message {k} of {n} sync-function messages that overlap in the thread pool ({c['threads']} threads, max_async_tasks={c['A']}, via {c['via']}): "
                             f"its task function never ran (entries per message: {[entries.count(j) for j in range(n)]})")
        elif cnt > 1:
            out.add("C01.b", f"message {k}: its sync task function ran {cnt} times")
    out.nontrivial = True
    out.classes = ["pool_overlap", f"n={n}", "via=" + c["via"]]
    return out


_parts_core01, _run_core01 = parts, run_case


def parts(tier: str) -> List[Part]:  # type: ignore[no-redef]
    return _parts_core01(tier) + [Part("sync_pool_overlap", "given", shards=2, examples=300 if tier == "thorough" else 20,
                                       strategy=pool_overlap_cases, soft_deadline_s=900 if tier == "thorough" else 100)]


def run_case(sc: Dict[str, Any]) -> Outcome:  # type: ignore[no-redef]
    return run_pool_overlap(sc) if sc.get("pool_overlap") else _run_core01(sc)
