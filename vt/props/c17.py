"""C17 - the process manager keeps exactly one live worker per slot."""
from __future__ import annotations

from typing import Any, Dict, List

from vt.core.engine import Outcome, Part
from vt.harness import procman
from vt.props import pm_common as pc

PID = "C17"
RULE = (
    "(1) 'enumerated': EVERY history over the per-tick alphabet {any subset of slots dies} x {no signal, SIGHUP, file "
    "change, SIGTERM, SIGINT, SIGHUP+SIGTERM, SIGINT+SIGHUP, SIGHUP+file change} for W=1,2 to depth 3 and W=3 to depth 2 "
    "(thorough: depth 4 / 3), x max_fails in {-1,0,1,2,3} x start-up deaths {none, first start, first restart, "
    "last initial start + first restart}; exhaustive within that bound. (2) 'generated': Hypothesis histories of 3-40 "
    "ticks, W in 1..3, with repeated signals per tick and signals delivered in the middle of a tick (at the k-th fake "
    "OS call), start-up deaths at arbitrary start indexes. The real ProcessManager.start() runs against a fake OS "
    "(processes new->alive->zombie->reaped). Oracle = invariants over the fake-OS trace: at every start of a slot the "
    "previous process is not alive and was terminated then joined; the slot list keeps its length; join never targets "
    "a live process; a worker that died in tick k is replaced by the end of tick k+2 unless the manager ended. "
    "Non-trivial: >=2 different event kinds in one tick, or the failure budget is reached, or shutdown with a dead "
    "worker present, or a start-up death, or a mid-tick signal."
)
ASSUMPTIONS = ["fake OS, not real processes: kernel-level races (pid reuse, signal coalescing) and "
               "multiprocessing.Queue.empty() unreliability are not explored",
               "worker start-up is instantaneous unless listed in start-up deaths"]

QUICK_BOUNDS = [(1, 3), (2, 3), (3, 2)]
THOROUGH_BOUNDS = [(1, 4), (2, 4), (3, 3)]


def parts(tier: str) -> List[Part]:
    if tier == "thorough":
        return [Part("enumerated", "enum", shards=16, examples=0, enumerate=lambda s, n: pc.enumerate_cases(THOROUGH_BOUNDS, s, n),
                     exhaustive=True, soft_deadline_s=3000),
                Part("generated", "given", shards=8, examples=20000, strategy=lambda: pc.histories(60), soft_deadline_s=1500),
                Part("hosted", "given", shards=4, examples=1500, strategy=pc.hosted_histories, soft_deadline_s=900)]
    return [Part("enumerated", "enum", shards=12, examples=0, enumerate=lambda s, n: pc.enumerate_cases(QUICK_BOUNDS, s, n),
                 exhaustive=True, soft_deadline_s=200),
            Part("generated", "given", shards=4, examples=1500, strategy=pc.histories, soft_deadline_s=100),
            Part("hosted", "given", shards=2, examples=120, strategy=pc.hosted_histories, soft_deadline_s=100)]


def run_case(case: Dict[str, Any]) -> Outcome:
    out = Outcome()
    out.clauses_checked = ["C17.a", "C17.b", "C17.c"]
    res = (procman.run_manager_hosted if case.get("hosted") else procman.run_manager)(case["W"], case["mf"], case["h"], case["sd"], case.get("slow", ()), pidpool=case.get("pidpool", 0))
    an = pc.analyse(case["W"], case["mf"], res, out, "C17")
    cl = pc.classify(case, res, an)
    out.nontrivial = bool(cl)
    out.classes = cl + [f"W={case['W']}", "status=" + res["status"] + ("" if res["status"] != "returned" else f":{res['ret']}")]
    out.trace = pc.brief(res["trace"])
    out.counters = {"ticks": res["ticks_used"], "deaths_checked": len(an["deaths"])}
    return out


SELFTEST_CASES = [{"W": 2, "mf": 2, "h": [{"die": [0], "sig": []}, {"die": [], "sig": ["HUP"]}, {"die": [1], "sig": ["TERM"]}], "sd": []}]
