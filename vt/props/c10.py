"""C10 - middleware hooks fire in the documented order, once per message."""
from __future__ import annotations

import asyncio
from typing import Any, Dict, List

from hypothesis import strategies as st

from taskiq.acks import AcknowledgeType
from taskiq.exceptions import SendTaskError
from taskiq.kicker import AsyncKicker
from taskiq.receiver import Receiver
from taskiq import Context, TaskiqDepends

from vt.core.engine import Outcome, Part
from vt.core.vloop import Deadlock, VirtualTimeLoop
from vt.harness import worker as wh
from vt.props import common as cm

PID = "C10"
RULE = (
    "Hypothesis-generated middleware stacks of 0-3 synthesised TaskiqMiddleware subclasses, each overriding any subset "
    "of the six hooks (each defined on the registered class itself or inherited from an intermediate middleware class), every hook sync, async or a plain function returning a coroutine; optionally the same instance registered twice, or middlewares that compare equal to each other, pre_send / pre_execute optionally REPLACING the message by a stamped "
    "copy (so that 'each sees its predecessor's message' is observable in data); 1-4 messages sent through the real "
    "AsyncKicker.kiq (sequentially or concurrently; in a third of the cases through a kicker built for ANOTHER broker with its own middleware and redirected with with_broker()), kick() failing for a generated subset, then delivered to the real "
    "Receiver.listen() with generated arrival instants (concurrent executions), outcomes return / raise / BaseException / "
    "no-result / timeout, result-backend failures on a generated subset. Oracle: the per-message projection of the "
    "trace equals the documented sequence exactly: pre_send[in order] -> kick -> post_send[in order] (failing kick => "
    "SendTaskError to the caller and no post_send); pre_execute[...] -> enter -> exit -> on_error[...] iff it raised -> "
    "post_execute[...] -> save -> post_save[...] iff a result was stored; non-overridden hooks never run; stamps seen "
    "by each hook equal those of its predecessors. Non-trivial: >=2 middlewares with >=3 overridden hooks in total and "
    "an outcome other than plain return (or a failing kick / save)."
)
ASSUMPTIONS = ["hooks that raise are outside C10 (C03 covers them)", "virtual-time loop, inline executor"]


def scenario(big: bool = False) -> Any:
    hook = st.fixed_dictionaries({"async": st.sampled_from([False, True, True, "deferred", "future", "awaitable"]), "stamp": st.booleans(), "inherited": st.sampled_from([False, False, True]),
                                  "names": st.sampled_from(["std", "std", "other"])})     # hook parameters named message/result/exception, or msg/res/*args
    mw = st.dictionaries(st.sampled_from(list(wh.HOOKS)), hook, max_size=6)

    def fin(d: Dict[str, Any]) -> Dict[str, Any]:
        d["msgs"] = cm.sort_msgs(d["msgs"])
        if d.pop("value_eq"):
            for m in d["mws"]:
                m["_value_eq"] = True       # distinct middlewares that compare equal (value semantics)
        d["fail_saves"] = sorted(d["fail_saves"])
        d["fail_kicks"] = sorted(k for k in d["fail_kicks"] if k < len(d["msgs"]))
        cs = d.pop("clock_step")
        if cs:
            # the host's wall clock is stepped (NTP correction, VM resume) while an async task runs: hooks fire as ever
            for m in d["msgs"]:
                if m["kind"] == "async":
                    m["clock_step"] = cs
                    break
        return d

    msg = cm.message(kinds=("async", "async", "sync"), outs=("ret", "ret", "ValueError", "MyBase", "NoResult", "KeyboardInterrupt", "EmptyBatchError", "BadStrError", "CancelledError"),
                     timeouts=(None, None, None, 0.3), acks=(None, "sync"), at=cm.times(20))
    return st.fixed_dictionaries({
        "A": st.integers(1, 3), "P": st.integers(0, 2),
        "mws": st.lists(mw, max_size=5 if big else 3),
        "msgs": st.lists(msg, min_size=1, max_size=7 if big else 4),
        "fail_saves": st.sets(st.integers(0, 3), max_size=2),
        "fail_kicks": st.sets(st.integers(0, 3), max_size=2),
        # what the broker's kick() raises when a send fails: anything, incl. taskiq's own broker errors and a third-party subclass
        "kick_exc": st.sampled_from(["RuntimeError", "RuntimeError", "ConnectionError", "KeyError", "BrokerError", "QueueUnavailableError", "SendTaskError", "UnknownTaskError", "TimeoutError"]),
        "concurrent_send": st.booleans(),
        "redirect": st.sampled_from([False, False, True]),
        "dup_mw": st.one_of(st.none(), st.none(), st.integers(0, 2)),
        "register_one_by_one": st.booleans(),
        "value_eq": st.sampled_from([False, False, True]),
        "clock_step": st.sampled_from([0, 0, 0, -5.0, 3600.0, -0.5]),
        "ack_type": st.sampled_from(["when_received", "when_executed", "when_saved"]),
    }).map(fin)


def parts(tier: str) -> List[Part]:
    if tier == "thorough":
        return [Part("stacks", "given", shards=16, examples=12000, strategy=lambda: scenario(True), soft_deadline_s=3000)]
    return [Part("stacks", "given", shards=8, examples=600, strategy=scenario, soft_deadline_s=120)]


def run_case(sc: Dict[str, Any]) -> Outcome:
    out = Outcome()
    out.clauses_checked = ["C10.a", "C10.b"]
    specs = sc["msgs"]
    mws = sc["mws"]
    loop = VirtualTimeLoop()
    import taskiq.receiver.receiver as _rr

    wh.WALL["offset"] = 0.0
    _orig_time = getattr(_rr, "time", None)
    if _orig_time is not None:
        _rr.time = lambda: 1.7e9 + loop.time() + wh.WALL["offset"]  # type: ignore[attr-defined]  # the wall clock: virtual time plus generated steps
    loop.max_iterations = 200_000
    asyncio.set_event_loop(loop)
    tr = wh.Trace(loop)
    b = wh.ScriptedBroker(tr)
    b.ends = True
    b.kick_fail = set(sc["fail_kicks"])
    b.kick_exc = sc.get("kick_exc", "RuntimeError")
    rb = wh.RecordingBackend(tr, sc["fail_saves"], 0.0)
    b.result_backend = rb
    wh.register_timing_tasks(b, tr, sc)
    built = wh.build_middlewares(mws, tr)
    dup = sc.get("dup_mw")
    order = list(range(len(built)))
    if dup is not None and built:
        order.append(dup % len(built))      # the same middleware instance registered a second time
    if built:
        if sc.get("register_one_by_one"):
            for k in order:
                b.add_middlewares(built[k])
        else:
            b.add_middlewares(*[built[k] for k in order])
    other = wh.ScriptedBroker(tr)
    decoy_spec = [{h: {"async": False, "stamp": True} for h in ("pre_send", "post_send")}]
    for mw in wh.build_middlewares(decoy_spec, tr, base=100):    # its events carry mw=100: never expected
        other.add_middlewares(mw)
    send_result: Dict[int, str] = {}
    res: Dict[str, Any] = {"returned": False, "exc": None}

    async def send_one(i: int) -> None:
        sp = specs[i]
        labels = {}
        if sp.get("timeout") is not None:
            labels["timeout"] = sp["timeout"]
        if sc.get("redirect"):
            # the documented way to send through another broker: a kicker built for broker `other` (with a middleware
            # stack of its own) is redirected with with_broker(b); only b's hooks may run for this send
            k = AsyncKicker("stask" if sp["kind"] == "sync" else "atask", other, labels).with_broker(b).with_task_id(f"id{i}")
        else:
            k = AsyncKicker("stask" if sp["kind"] == "sync" else "atask", b, labels).with_task_id(f"id{i}")
        try:
            await k.kiq(i)
            send_result[i] = "ok"
        except SendTaskError:
            send_result[i] = "SendTaskError"
        except BaseException as e:  # noqa: BLE001
            send_result[i] = type(e).__name__

    async def main() -> None:
        if sc["concurrent_send"]:
            await asyncio.gather(*[send_one(i) for i in range(len(specs))])
        else:
            for i in range(len(specs)):
                await send_one(i)
        tr.add("sent_all")
        b.is_worker_process = True   # what `taskiq worker` sets before it starts the receiver
        base = loop.time()
        b.script = [(base + specs[wh.msg_index(m.task_id)]["at"], m.message, specs[wh.msg_index(m.task_id)].get("ack")) for m in b.sent]
        # the scripted broker identifies messages by script position: map back to the message index
        order = [wh.msg_index(m.task_id) for m in b.sent]
        r = Receiver(b, executor=wh.Inline(), max_async_tasks=sc["A"], max_prefetch=sc["P"],
                     ack_type=AcknowledgeType(sc["ack_type"]), run_startup=False)
        ev = asyncio.Event()
        lt = asyncio.ensure_future(r.listen(ev))
        done, _ = await asyncio.wait({lt}, timeout=60.0)
        res["returned"] = lt in done
        res["order"] = order
        if lt in done and not lt.cancelled() and lt.exception() is not None:
            res["exc"] = repr(lt.exception())
        if lt not in done:
            lt.cancel()

    try:
        try:
            loop.run_until_complete(main())
            trace = list(tr.ev)
        except Deadlock as e:
            res["exc"] = "deadlock " + str(e)
            trace = list(tr.ev)
    finally:
        loop.max_iterations = 0
        try:
            pend = [t for t in asyncio.all_tasks(loop) if not t.done()]
            for t in pend:
                t.cancel()
            if pend:
                try:
                    loop.run_until_complete(asyncio.gather(*pend, return_exceptions=True))
                except BaseException:  # noqa: BLE001
                    pass
        finally:
            loop.close()
            if _orig_time is not None:
                _rr.time = _orig_time  # type: ignore[attr-defined]
            asyncio.set_event_loop(None)
    if res["exc"] or not res["returned"]:
        out.add("C10.b", f"listen() did not finish normally: {res['exc']} returned={res['returned']}")
    # script positions (take/ack events use the script index) -> message index
    order = res.get("order", [])
    isent = next((n for n, e in enumerate(trace) if e[1] == "sent_all"), len(trace))

    reg_order = list(range(len(mws)))
    if sc.get("dup_mw") is not None and mws:
        reg_order.append(sc["dup_mw"] % len(mws))

    def overriders(h: str) -> List[int]:
        return [mi for mi in reg_order if h in mws[mi]]

    def stamps(h: str, upto_pos: int) -> str:
        """stamps added by the hooks registered before position `upto_pos` in the overrider list"""
        ov = overriders(h)
        return "".join(f"{h[4]}{mi}" for mi in ov[:upto_pos] if mws[mi][h].get("stamp"))

    nontriv = False
    total_hooks = sum(len([h for h in m if not h.startswith("_")]) for m in mws)
    for i, sp in enumerate(specs):
        # ---- send side
        got_send = [(e[1], e[3].get("mw")) for e in trace[:isent] if e[2] == i and e[1] in ("pre_send", "kick", "post_send")]
        kick_ok = send_result.get(i) == "ok"
        kick_n = next((e[3].get("n") for e in trace[:isent] if e[2] == i and e[1] == "kick"), None)
        should_fail = kick_n in set(sc["fail_kicks"])
        exp_send = [("pre_send", mi) for mi in overriders("pre_send")] + [("kick", None)]
        if not should_fail:
            exp_send += [("post_send", mi) for mi in overriders("post_send")]
        if got_send != exp_send:
            out.add("C10.a", f"message {i}: send-side hook sequence {got_send} != documented {exp_send}")
        if should_fail and send_result.get(i) != "SendTaskError":
            out.add("C10.a", f"message {i}: kick failed but the caller saw {send_result.get(i)!r}, expected SendTaskError")
        if not should_fail and not kick_ok:
            out.add("C10.a", f"message {i}: kick succeeded but kiq raised {send_result.get(i)!r}")
        pos_ = 0
        for e in trace[:isent]:
            if e[2] == i and e[1] == "pre_send":
                if e[3]["seen"] != stamps("pre_send", pos_):
                    out.add("C10.a", f"message {i}: pre_send #{pos_} (middleware {e[3]['mw']}) saw stamps {e[3]['seen']!r}, expected its predecessors' {stamps('pre_send', pos_)!r}")
                pos_ += 1
            if e[2] == i and e[1] == "post_send" and e[3]["seen"] != stamps("pre_send", 99):
                out.add("C10.a", f"message {i}: post_send of middleware {e[3]['mw']} saw stamps {e[3]['seen']!r}, expected {stamps('pre_send', 99)!r}")
        if should_fail:
            nontriv = nontriv or total_hooks >= 3
            if any(e[2] == i and e[1] in ("pre_execute", "enter") for e in trace[isent:]):
                out.add("C10.b", f"message {i} was never sent successfully but was executed")
            continue
        # ---- worker side
        to = sp.get("timeout")
        timed_out = wh.timeout_verdict(sp) == "timeout"
        tie = wh.timeout_verdict(sp) == "tie"
        raised = timed_out or sp["out"] != "ret"
        nores = sp["out"] == "NoResult" and not timed_out
        worker_kinds = ("pre_execute", "enter", "exit", "on_error", "post_execute", "save_start", "save_end", "save_failed", "post_save")
        got = [(e[1], e[3].get("mw")) for e in trace[isent:] if e[2] == i and e[1] in worker_kinds]
        save_n = next((e[3].get("n") for e in trace[isent:] if e[2] == i and e[1] == "save_start"), None)
        save_fails = save_n in set(sc["fail_saves"])
        exp = [("pre_execute", mi) for mi in overriders("pre_execute")] + [("enter", None), ("exit", None)]
        if raised:
            exp += [("on_error", mi) for mi in overriders("on_error")]
        exp += [("post_execute", mi) for mi in overriders("post_execute")]
        if not nores:
            exp += [("save_start", None), ("save_failed", None)] if save_fails else \
                   [("save_start", None), ("save_end", None)] + [("post_save", mi) for mi in overriders("post_save")]
        if tie:
            continue
        if got != exp:
            out.add("C10.b", f"message {i} (outcome {sp['out']}, timed_out={timed_out}, save_fails={save_fails}): worker-side "
                             f"sequence {got} != documented {exp}")
        final = stamps("pre_send", 99)
        pos_ = 0
        for e in trace[isent:]:
            if e[2] == i and e[1] == "pre_execute":
                want = final + stamps("pre_execute", pos_)
                if e[3]["seen"] != want:
                    out.add("C10.b", f"message {i}: pre_execute #{pos_} (middleware {e[3]['mw']}) saw stamps {e[3]['seen']!r}, expected {want!r}")
                pos_ += 1
        if (raised or save_fails) and len(mws) >= 2 and total_hooks >= 3:
            nontriv = True
    # the script index used by take/ack events differs from the message index when kicks failed: not used here
    out.nontrivial = nontriv
    out.classes = [f"mws={len(mws)}"] + [c for c, f in (("failing_kick", bool(sc["fail_kicks"])), ("failing_save", bool(sc["fail_saves"])),
                                                       ("async_hook", any(h.get("async") for m in mws for k_, h in m.items() if not k_.startswith("_"))),
                                                       ("stamping_hook", any(h.get("stamp") for m in mws for k_, h in m.items() if not k_.startswith("_"))),
                                                       ("inherited_hook", any(h.get("inherited") for m in mws for k_, h in m.items() if not k_.startswith("_"))),
                                                       ("concurrent_send", sc["concurrent_send"]), ("redirected_kicker", bool(sc.get("redirect"))), ("same_instance_twice", sc.get("dup_mw") is not None and bool(mws)),
                                                       ("value_equal_middlewares", any(m.get("_value_eq") for m in mws))) if f]
    out.trace = wh.brief_trace(trace, 70)
    return out


SELFTEST_CASES = []


# ---------------------------------------------------------------- histories: the middleware stack changes while the worker lives
#
# "for the broker's middleware stack": the stack is whatever has been registered (add_middlewares / with_middlewares) by the time a
# hook is due - a middleware registered after the worker already processed messages takes part from then on, in registration order.
# Generated histories of operations on ONE broker + ONE receiver: send-and-process a message (succeeding / failing / no-result) and
# register a further middleware (a generated subset of hooks, sync or async).  Oracle = the list model of the stack.

HOOKSET = ("pre_send", "post_send", "pre_execute", "on_error", "post_execute", "post_save")


def history_cases() -> Any:
    mw = st.fixed_dictionaries({"hooks": st.sets(st.sampled_from(HOOKSET), min_size=1, max_size=6).map(sorted), "async": st.booleans(),
                                "via": st.sampled_from(["add_middlewares", "add_middlewares", "with_middlewares"])})
    op = st.one_of(st.tuples(st.just("msg"), st.sampled_from(["ok", "ok", "fail", "nores", "retry_fail"])).map(list),
                   st.tuples(st.just("msg"), st.sampled_from(["ok", "fail"])).map(list),
                   st.tuples(st.just("burst"), st.integers(2, 4)).map(list),
                   st.tuples(st.just("restart"), st.just(None)).map(list),
                   st.tuples(st.just("add"), mw).map(list))
    # optionally the bundled retry middleware sits somewhere in the initial stack: its re-send is a send like any other
    return st.fixed_dictionaries({"history": st.just(True), "initial": st.lists(mw, max_size=2), "ops": st.lists(op, min_size=2, max_size=9),
                                  "retry_pos": st.sampled_from([None, None, 0, 1, 2])}).map(_with_retry)


def _with_retry(d: Dict[str, Any]) -> Dict[str, Any]:
    rp = d.pop("retry_pos")
    if rp is not None:
        d["initial"] = list(d["initial"])
        d["initial"].insert(min(rp, len(d["initial"])), {"hooks": [], "async": False, "via": "add_middlewares", "retry": True})
    return d


def run_history(c: Dict[str, Any]) -> Outcome:
    from taskiq import AsyncBroker, TaskiqMiddleware
    from taskiq.brokers.inmemory_broker import InmemoryResultBackend
    from taskiq.exceptions import NoResultError

    out = Outcome()
    out.clauses_checked = ["C10.a", "C10.b"]
    log: List[Any] = []

    class QB(AsyncBroker):
        def __init__(self) -> None:
            super().__init__()
            self.q: List[Any] = []

        async def kick(self, m: Any) -> None:
            log.append(("kick", None))
            sends.append(("kick", None, m.task_id))
            await asyncio.sleep(0)          # a broker whose kick really suspends (a network round trip)
            self.q.append(m)

        async def listen(self):  # type: ignore[override]
            yield b""

    def make_mw(idx: int, spec: Dict[str, Any]) -> Any:
        if spec.get("retry"):
            from taskiq import SimpleRetryMiddleware

            return SimpleRetryMiddleware(default_retry_count=3)
        ns: Dict[str, Any] = {}
        for h in spec["hooks"]:
            def mk(h: str = h) -> Any:
                if spec["async"]:
                    async def f(self: Any, *a: Any, **k: Any) -> Any:
                        log.append((h, idx))
                        if h in ("pre_send", "post_send"):
                            sends.append((h, idx, a[0].task_id))
                            await asyncio.sleep(0)
                        return a[0] if h in ("pre_send", "pre_execute") else None
                else:
                    def f(self: Any, *a: Any, **k: Any) -> Any:  # type: ignore[misc]
                        log.append((h, idx))
                        if h in ("pre_send", "post_send"):
                            sends.append((h, idx, a[0].task_id))
                        return a[0] if h in ("pre_send", "pre_execute") else None
                return f
            ns[h] = mk()
        return type(f"HistMW{idx}", (TaskiqMiddleware,), ns)()

    stack: List[Any] = []     # model: (idx, spec) in registration order
    sends: List[Any] = []     # send-side events with the task id of the message the hook was handed
    bursts = 0
    nmsg = 0
    late = False

    async def go() -> None:
        nonlocal nmsg, late, bursts
        b = QB()
        b.result_backend = InmemoryResultBackend()

        async def t(kind: str, ctx: Context = TaskiqDepends()) -> Any:
            log.append(("task", None))
            if kind == "fail" or (kind == "retry_fail" and "_retries" not in ctx.message.labels):
                raise ValueError("boom")
            if kind == "nores":
                raise NoResultError()
            return 1

        t.__module__ = __name__
        b.register_task(t, task_name="hist.t")
        for spec in c["initial"]:
            idx = len(stack)
            stack.append((idx, spec))
            b.add_middlewares(make_mw(idx, spec))
        r = Receiver(b, max_async_tasks=3, run_startup=False)
        for op, arg in c["ops"]:
            if op == "add":
                idx = len(stack)
                stack.append((idx, arg))
                if arg["via"] == "with_middlewares":
                    b.with_middlewares(make_mw(idx, arg))
                else:
                    b.add_middlewares(make_mw(idx, arg))
                late = late or nmsg > 0
                continue
            if op == "restart":
                # the application stops and starts the SAME broker object again (a test fixture, a lifespan restart): its stack is what it was
                await b.shutdown()
                await b.startup()
                continue
            if op == "burst":
                # ONE kicker object (task.kicker().with_labels(...) kept around) used for several sends that are in flight together
                del sends[:]
                bursts += 1
                kk = AsyncKicker("hist.t", b, {"tenant": "a"})
                handles = await asyncio.gather(*[kk.kiq("ok") for _ in range(arg)])
                ids = [h_.task_id for h_ in handles]
                per: Dict[str, List[Any]] = {}
                for h_, i_, tid in sends:
                    per.setdefault(tid, []).append((h_, i_))
                want = [(h_, i_) for h_ in ("pre_send",) for i_, s in stack if h_ in s["hooks"]] + [("kick", None)] + [("post_send", i_) for i_, s in stack if "post_send" in s["hooks"]]
                if len(set(ids)) != arg or sorted(per) != sorted(set(ids)) or any(per[t_] != want for t_ in per):
                    out.add("C10.a", f"{arg} concurrent sends through one kicker with the stack {[(i_, s['hooks']) for i_, s in stack]}: returned task ids {ids}; "
                                     f"send-side hook sequences per message id {per}; documented for each message: {want}")
                    return
                del b.q[:]
                continue
            del log[:]
            nmsg += 1
            await AsyncKicker("hist.t", b, {"retry_on_error": True} if arg == "retry_fail" else {}).with_task_id(f"H{nmsg}").kiq(arg)
            try:
                while b.q:
                    await r.callback(b.q.pop(0).message)
            except BaseException as e:  # noqa: BLE001
                out.add("C10.b", f"message #{nmsg}: processing raised {type(e).__name__}: {e}")
                return

            def ov(h: str) -> List[Any]:
                return [(h, i) for i, s in stack if h in s["hooks"]]

            send = ov("pre_send") + [("kick", None)] + ov("post_send")
            retried = arg == "retry_fail" and any(s.get("retry") for _, s in stack)
            exp = send + ov("pre_execute") + [("task", None)]
            if arg in ("fail", "nores", "retry_fail"):
                for i, s in stack:
                    if s.get("retry") and arg == "retry_fail":
                        exp += send                      # the retry middleware's on_error sends the message again: a send like any other
                    elif "on_error" in s["hooks"]:
                        exp.append(("on_error", i))
            exp += ov("post_execute")
            if arg != "nores" and not retried:
                exp += ov("post_save")
            if retried:
                exp += ov("pre_execute") + [("task", None)] + ov("post_execute") + ov("post_save")     # the second delivery succeeds
            if log != exp:
                out.add("C10.b" if log[: len(ov("pre_send")) + 1 + len(ov("post_send"))] == exp[: len(ov("pre_send")) + 1 + len(ov("post_send"))] else "C10.a",
                        f"message #{nmsg} ({arg}) with the stack {[(i, s['hooks']) for i, s in stack]} (registered in this order, "
                        f"{sum(1 for _ in stack) - len(c['initial'])} of them while the worker was already running): hook sequence {log} != documented {exp}")
                return

    asyncio.run(go())
    out.nontrivial = late
    out.classes = ["history"] + (["middleware_registered_after_first_message"] if late else []) + (["concurrent_sends_through_one_kicker"] if bursts else []) + (["retry_middleware_resend"] if any(s.get("retry") for _, s in stack) and any(o == "msg" and a == "retry_fail" for o, a in c["ops"]) else [])
    return out


_parts_core10, _run_core10 = parts, run_case


def parts(tier: str) -> List[Part]:  # type: ignore[no-redef]
    n = 6000 if tier == "thorough" else 400
    return _parts_core10(tier) + [Part("stack_histories", "given", shards=2, examples=n, strategy=history_cases, soft_deadline_s=900 if tier == "thorough" else 100)]


def run_case(case: Dict[str, Any]) -> Outcome:  # type: ignore[no-redef]
    return run_history(case) if case.get("history") else _run_core10(case)
