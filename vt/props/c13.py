"""C13 - a cron schedule is due exactly in the minutes its expression matches."""
from __future__ import annotations

import datetime as dtm
import functools
import zoneinfo
from typing import Any, Dict, List, Optional

import pytz
from hypothesis import strategies as st

from taskiq.abc.schedule_source import ScheduleSource
from taskiq.scheduler.scheduled_task import ScheduledTask

from vt.core.engine import Outcome, Part
from vt.harness import clock
from vt.oracles import cron

PID = "C13"
RULE = (
    "Two generated sub-spaces. (1) 'instants': Hypothesis draws a cron expression from a numeric five-field grammar "
    "(*, */n, values, a-b, a-b/s, comma lists; DOW 0-6), an offset (none | timedelta within +-26 h with second and "
    "microsecond resolution | one of 12 IANA zones incl. 30/45-minute and DST-shifting ones) and an instant 2015-2035 "
    "with microsecond resolution; the schedule is a cron string on a ScheduledTask or is created through the public schedule_by_cron(CronSpec(...)) with numeric fields as str or int (lowest field values 0/1 made frequent); biased so that the expression's minute/hour/day fields contain the instant's own "
    "local values in ~half of the cases. (2) 'day_sweeps': expression x zone/offset x a day (every DST-transition day "
    "of the zone in 2015-2035 +-1 day, or a drawn day); ALL 1440 minutes of that UTC day are evaluated, each at a "
    "drawn second/microsecond. Oracle: an independent crontab(5) matcher applied to the local time computed with "
    "zoneinfo / integer-microsecond arithmetic; get_task_delay must return 0 iff it matches, else None; changing only "
    "seconds/microseconds never changes the answer (metamorphic). (3) 'loop_runs': the real run_scheduler_loop on the virtual-time loop with sources that take 0-61 s to answer a listing, started up to 0.1 s before a minute boundary; "
    "the cron schedules sent when a listing completes must be exactly the listed ones matching the minute of THAT instant (non-trivial there: the listing crossed a minute boundary). Non-trivial: the instant is within +-1 day of a DST "
    "transition of the zone, or the offset is not a whole number of hours, or the local calendar day differs from the "
    "UTC day; distinct = canonical JSON of the case."
    " Some entries carry a `time` next to the cron expression (past or future): they stay cron schedules."
)
ASSUMPTIONS = [
    "the check process runs with TZ=Asia/Kathmandu (naive datetime.now() returns that wall time) so that dependence on the local zone shows",
    "zone data: pytz 2026.3 inside taskiq vs system tzdata through zoneinfo in the oracle; instants at which the two "
    "databases themselves disagree are skipped and counted (tzdb_disagreement), not reported",
    "expressions stay inside the grammar on which crontab(5) and pycron agree (numeric fields, DOW 0-6)",
]

ZONES = ["Europe/Berlin", "America/New_York", "Asia/Kolkata", "Asia/Kathmandu", "Australia/Lord_Howe", "Pacific/Chatham",
         "America/St_Johns", "America/Sao_Paulo", "Pacific/Apia", "Australia/Adelaide", "Asia/Tehran", "UTC",
         "Etc/GMT+5", "Etc/GMT-14", "Etc/GMT-3", "Etc/GMT+0"]      # POSIX-style names: Etc/GMT+5 is UTC-05:00
RANGES = cron.RANGES
Y0 = clock.to_us(dtm.datetime(2015, 1, 1, tzinfo=clock.UTC))
Y1 = clock.to_us(dtm.datetime(2035, 12, 31, tzinfo=clock.UTC))
DAY_US = 86400 * 10**6


@functools.lru_cache(maxsize=None)
def transitions(zone: str) -> List[int]:
    tz = pytz.timezone(zone)
    out = []
    for t in getattr(tz, "_utc_transition_times", []):
        if 2015 <= t.year <= 2035:
            out.append(clock.to_us(t.replace(tzinfo=clock.UTC)))
    return out


# how the schedule is created: a cron string on a ScheduledTask, or the public schedule_by_cron() with a CronSpec whose
# purely numeric fields are passed as str or as int
VIA = st.sampled_from(["str", "str", "spec_str", "spec_int"])


def field(lo: int, hi: int) -> Any:
    val = st.integers(lo, hi)
    rng = st.tuples(val, val).map(lambda ab: (min(ab), max(ab)))
    item = st.one_of(
        val.map(str),
        val.map(str),
        rng.map(lambda ab: f"{ab[0]}-{ab[1]}"),
        st.tuples(rng, st.integers(1, 5)).map(lambda t: f"{t[0][0]}-{t[0][1]}/{t[1]}"),
    )
    return st.one_of(
        st.just("*"),
        st.integers(1, max(1, (hi - lo) // 2)).map(lambda n: f"*/{n}"),
        st.lists(item, min_size=1, max_size=3).map(",".join),
    )


def offset() -> Any:
    return st.one_of(
        st.none(),
        st.fixed_dictionaries({"td_us": st.one_of(
            st.integers(-26 * 3600, 26 * 3600).map(lambda s: s * 10**6),
            st.integers(-26 * 60, 26 * 60).map(lambda m: m * 60 * 10**6),
            st.integers(-26 * 3600 * 10**6, 26 * 3600 * 10**6))}),
        st.fixed_dictionaries({"zone": st.sampled_from(ZONES)}),
        st.fixed_dictionaries({"zone": st.sampled_from(ZONES)}),
    )


def local_of(us: int, off: Optional[Dict[str, Any]]) -> dtm.datetime:
    t = clock.from_us(us)
    if off is None:
        return t
    if "td_us" in off:
        return clock.from_us(us + off["td_us"])
    return t.astimezone(zoneinfo.ZoneInfo(off["zone"]))


def bias_expr(d: Dict[str, Any]) -> Dict[str, Any]:
    """With `pin` bits set, replace fields by a list containing the instant's own local value so that
    'due' answers are as frequent as 'not due' ones."""
    f = list(d["fields"])
    if isinstance(d["t_us"], dict):
        z = d["offset"]["zone"] if d["offset"] and "zone" in d["offset"] else d["t_us"]["z"]
        tr = transitions(z) or transitions("Europe/Berlin")
        d["t_us"] = tr[d["t_us"]["k"] % len(tr)] + d["t_us"]["delta"]
    loc = local_of(d["t_us"], d["offset"])
    vals = [loc.minute, loc.hour, loc.day, loc.month, loc.isoweekday() % 7]
    for k in range(5):
        if d["pin"][k] == 1:
            f[k] = "*"
        elif d["pin"][k] == 2:
            f[k] = (f[k] + "," if f[k] != "*" and not f[k].startswith("*/") else "") + str(vals[k])
        elif d["pin"][k] == 3:
            f[k] = str(RANGES[k][0])          # the lowest value of the field on its own ("0 * * * *", "0 0 * * 0", ...)
    r = {"expr": " ".join(f), "offset": d["offset"], "t_us": d["t_us"], "alt": d["alt"], "via": d["via"]}
    if d.get("also_time") is not None and d["via"] == "str":
        r["also_time"] = d["also_time"]
    return r


def instants() -> Any:
    t_any = st.integers(Y0, Y1)

    t_dst = st.fixed_dictionaries({"z": st.sampled_from(["Europe/Berlin", "Australia/Lord_Howe", "America/St_Johns"]),
                                   "k": st.integers(0, 100),
                                   "delta": st.one_of(st.integers(-DAY_US, DAY_US), st.integers(-2 * 3600 * 10**6, 2 * 3600 * 10**6))})
    return st.fixed_dictionaries({
        "fields": st.tuples(*[field(lo, hi) for lo, hi in RANGES]),
        "pin": st.tuples(*[st.sampled_from([0, 1, 1, 2, 2, 3]) for _ in range(5)]),
        "offset": offset(),
        "via": VIA,
        "t_us": st.one_of(t_any, t_dst),
        "alt": st.tuples(st.integers(0, 59), st.integers(0, 999_999)),
        # the entry also carries a `time` (a label entry / stored schedule with both keys): it stays a cron schedule
        "also_time": st.sampled_from([None] * 5 + [-86400, -3600, -1, 20, 3600]),
    }).map(bias_expr)


def sweeps() -> Any:
    def fin(d: Dict[str, Any]) -> Dict[str, Any]:
        off = d["offset"]
        day = d.pop("day_us") // DAY_US * DAY_US
        if off and "zone" in off and d.pop("use_dst"):
            tr = transitions(off["zone"])
            if tr:
                day = (tr[d["k"] % len(tr)] // DAY_US + d["shift"]) * DAY_US
        else:
            d.pop("use_dst", None)
        f = list(d["fields"])
        for k in (2, 3, 4):
            if d["star"][k - 2]:
                f[k] = "*"
        for k in range(5):
            if d["low"][k]:
                f[k] = str(RANGES[k][0])
        r = {"sweep": True, "expr": " ".join(f), "offset": off, "day_us": day, "sec": d["sec"], "us": d["us"], "via": d["via"]}
        if d["also_time"] is not None and d["via"] == "str":
            r["also_time"] = d["also_time"]
        return r

    return st.fixed_dictionaries({
        "fields": st.tuples(*[field(lo, hi) for lo, hi in RANGES]),
        "star": st.tuples(st.booleans(), st.sampled_from([True, True, False]), st.booleans()),
        "offset": offset(),
        "via": VIA,
        "low": st.tuples(*[st.sampled_from([False, False, False, True]) for _ in range(5)]),
        "day_us": st.integers(Y0, Y1), "use_dst": st.sampled_from([True, True, False]),
        "k": st.integers(0, 100), "shift": st.sampled_from([-1, 0, 0, 1]),
        "sec": st.integers(0, 59), "us": st.integers(0, 999_999),
        "also_time": st.sampled_from([None] * 5 + [-3600, 43200]),      # seconds from the start of the swept day
    }).map(fin)


def parts(tier: str) -> List[Part]:
    if tier == "thorough":
        return [Part("instants", "given", shards=8, examples=60000, strategy=instants, soft_deadline_s=1500),
                Part("instants_cov", "covguided", shards=4, examples=40000, strategy=instants, soft_deadline_s=1500),     # libFuzzer-driven, coverage of `taskiq` as guidance
                Part("day_sweeps", "given", shards=8, examples=2500, strategy=sweeps, soft_deadline_s=1500)]
    return [Part("instants", "given", shards=6, examples=5000, strategy=instants, soft_deadline_s=100),
            Part("day_sweeps", "given", shards=6, examples=150, strategy=sweeps, soft_deadline_s=100)]


class _Collect(ScheduleSource):
    def __init__(self) -> None:
        self.added: List[ScheduledTask] = []

    async def get_schedules(self) -> List[ScheduledTask]:
        return list(self.added)

    async def add_schedule(self, schedule: ScheduledTask) -> None:
        self.added.append(schedule)


@functools.lru_cache(maxsize=None)
def _broker() -> Any:
    from vt.harness.sched import KickBroker

    return KickBroker(lambda: 0, [0.0], set())


def _mk_task(expr: str, off: Optional[Dict[str, Any]], via: str = "str", time_us: Optional[int] = None) -> ScheduledTask:
    co: Any = None
    if off is not None:
        co = dtm.timedelta(microseconds=off["td_us"]) if "td_us" in off else off["zone"]
    if via != "str":
        from taskiq.kicker import AsyncKicker
        from taskiq.scheduler.scheduled_task import CronSpec

        f = [int(x) if via == "spec_int" and x.isdigit() else x for x in expr.split()]
        spec = CronSpec(minutes=f[0], hours=f[1], days=f[2], months=f[3], weekdays=f[4], offset=co)
        src = _Collect()
        coro = AsyncKicker("t", _broker(), {}).schedule_by_cron(src, spec)
        try:
            coro.send(None)
            raise RuntimeError("schedule_by_cron suspended on a source that never waits")
        except StopIteration:
            pass
        return src.added[0]
    if time_us is not None:
        return ScheduledTask(task_name="t", labels={}, args=[], kwargs={}, cron=expr, cron_offset=co, time=clock.from_us(time_us))
    return ScheduledTask(task_name="t", labels={}, args=[], kwargs={}, cron=expr, cron_offset=co)


def _eval(task: ScheduledTask, us: int) -> Any:
    from taskiq.cli.scheduler import run as R

    clock.FakeDT.cur = clock.from_us(us)
    clock.FakeDT.source = None
    try:
        return R.get_task_delay(task)
    except Exception as exc:  # noqa: BLE001 - a well-formed expression / offset must get an answer
        return f"raised {type(exc).__name__}: {exc}"


def _tzdb_agree(us: int, off: Optional[Dict[str, Any]], loc: dtm.datetime) -> bool:
    if not off or "zone" not in off:
        return True
    p = clock.from_us(us).astimezone(pytz.timezone(off["zone"]))
    return p.replace(tzinfo=None) == loc.replace(tzinfo=None)


def _nontrivial(us: int, off: Optional[Dict[str, Any]], loc: dtm.datetime) -> List[str]:
    cl = []
    if off and "zone" in off:
        if any(abs(us - t) <= DAY_US for t in transitions(off["zone"])):
            cl.append("near_dst_transition")
        o = loc.utcoffset()
        if o is not None and (o.total_seconds() % 3600) != 0:
            cl.append("non_hour_offset")
    elif off and off["td_us"] % (3600 * 10**6) != 0:
        cl.append("non_hour_offset")
    if loc.replace(tzinfo=None).date() != clock.from_us(us).date():
        cl.append("different_calendar_day")
    return cl


def run_case(case: Dict[str, Any]) -> Outcome:
    out = Outcome()
    clock.install()
    try:
        expr, off = case["expr"], case["offset"]
        via = case.get("via", "str")
        tus = None
        if case.get("also_time") is not None:
            tus = (case["day_us"] if case.get("sweep") else case["t_us"]) + case["also_time"] * 10**6
        task = _mk_task(expr, off, via, tus)
        how = (f" (the entry also has time={clock.from_us(tus).isoformat()})" if tus is not None else "") if via == "str" else f" (scheduled with schedule_by_cron(CronSpec(...)), numeric fields as {'int' if via == 'spec_int' else 'str'}; stored cron {task.cron!r})"
        if case.get("sweep"):
            out.clauses_checked = ["C13.a"]
            due = notdue = skipped = 0
            classes = set()
            for m in range(1440):
                us = case["day_us"] + m * 60 * 10**6 + case["sec"] * 10**6 + case["us"]
                loc = local_of(us, off)
                if not _tzdb_agree(us, off, loc):
                    skipped += 1
                    continue
                exp = 0 if cron.matches(expr, loc) else None
                got = _eval(task, us)
                if got != exp or type(got) is not type(exp):
                    out.add("C13.a", f"cron {expr!r} offset={off} at UTC {clock.from_us(us).isoformat()} (local "
                                     f"{loc.isoformat()}): get_task_delay={got!r}, expected {exp!r}{how}")
                    break
                if exp == 0:
                    due += 1
                else:
                    notdue += 1
                if m % 360 == 0:
                    classes.update(_nontrivial(us, off, loc))
            out.counters = {"minute_evaluations": due + notdue, "due": due, "not_due": notdue, "tzdb_disagreement": skipped}
            out.nontrivial = bool(classes)
            out.classes = sorted(classes) + ["sweep_both_answers" if due and notdue else "sweep_single_answer"]
            out.trace = {"due_minutes": due, "not_due_minutes": notdue}
            return out
        us = case["t_us"]
        loc = local_of(us, off)
        out.clauses_checked = ["C13.a", "C13.b"]
        if not _tzdb_agree(us, off, loc):
            out.counters = {"tzdb_disagreement": 1}
            out.classes = ["skipped_tzdb_disagreement"]
            return out
        exp = 0 if cron.matches(expr, loc) else None
        got = _eval(task, us)
        if got != exp or type(got) is not type(exp):
            out.add("C13.a", f"cron {expr!r} offset={off} at UTC {clock.from_us(us).isoformat()} (local {loc.isoformat()}): "
                             f"get_task_delay={got!r}, expected {exp!r}{how}")
        # metamorphic: same minute, other second / microsecond.  The *local* minute must be the same too
        # (sub-minute timedelta offsets shift the local minute boundary), so compare within the local minute.
        base_local_min = loc.replace(second=0, microsecond=0)
        shift = (case["alt"][0] * 10**6 + case["alt"][1]) - (loc.second * 10**6 + loc.microsecond)
        us2 = us + shift
        loc2 = local_of(us2, off)
        if loc2.replace(second=0, microsecond=0, fold=0) == base_local_min.replace(fold=0) and _tzdb_agree(us2, off, loc2):
            got2 = _eval(task, us2)
            if got2 != got:
                out.add("C13.b", f"cron {expr!r} offset={off}: answer changes within one local minute: {got!r} at "
                                 f"{clock.from_us(us).isoformat()} vs {got2!r} at {clock.from_us(us2).isoformat()}")
        cl = _nontrivial(us, off, loc)
        out.nontrivial = bool(cl)
        out.classes = cl + ["due" if exp == 0 else "not_due"] + (["zone"] if off and "zone" in off else ["timedelta"] if off else ["no_offset"]) + ["via=" + via]
        out.counters = {"due": int(exp == 0), "not_due": int(exp is None)}
        out.trace = {"local": loc.isoformat(), "expected": exp, "got": got}
        return out
    finally:
        clock.uninstall()


# ---------------------------------------------------------------------------------------------------------------
# the same rule observed through the real scheduler loop: "the current minute" is the minute in which the schedules are
# looked at, also when the listing of the sources took a while and crossed a minute boundary


def loop_runs() -> Any:
    MIN = 60 * 10**6

    def fin(d: Dict[str, Any]) -> Dict[str, Any]:
        base = d["base"] // MIN * MIN + int(d["bsec"] * 10**6)
        sources = []
        retime: List[Dict[str, Any]] = []
        for si, (lat, ents) in enumerate(d["sources"]):
            es = []
            for j, (mk, rest, off) in enumerate(ents):
                loc = local_of(base, off)
                mins = {"cur": str(loc.minute), "next": str((loc.minute + 1) % 60), "next2": str((loc.minute + 2) % 60),
                        "any": "*", "even": "*/2", "pair": f"{loc.minute},{(loc.minute + 1) % 60}"}[mk]
                es.append({"id": f"c{si}_{j}", "cron": mins + " " + rest, "offset": off, "add_at": 0, "remove_at": None})
            kind = "label" if d["label"] and si == 0 else "scripted"
            if kind == "label":
                for e in es:
                    e.pop("add_at"), e.pop("remove_at")
            elif d["broken_first"]:
                # a sibling schedule with an unparsable expression listed BEFORE the others (a typo: four fields; a step that is no
                # number): it is skipped with a warning, the entries behind it are looked at all the same
                es.insert(0, {"id": f"x{si}", "cron": d["broken_first"], "offset": None, "add_at": 0, "remove_at": None, "malformed": True})
            elif d["shot_first"]:
                # an overdue one-shot listed BEFORE the cron entries, by a source that hands out its own list and drops a sent one-shot
                # from it in post_send: the cron entries behind it are looked at all the same
                es.insert(0, {"id": f"o{si}", "t_off_us": -5 * 10**6, "naive": False, "add_at": 0, "remove_at": None})
            sources.append({"kind": kind, "entries": es, "fail_polls": [], "list_latency": 0.0 if kind == "label" else lat,
                            "live_list": bool(d["shot_first"]) and kind != "label"})
            if kind == "label" and d["retime"] and d["h"] >= 3:
                # mid-way through the second full minute the first label entry gets another minute field, in place
                loc = local_of(base, es[0]["offset"])
                new = {"all": "*", "none": str((loc.minute + 30) % 60), "third": str((loc.minute + 3) % 60)}[d["retime"]] + " * * * *"
                retime.append({"at_s": (MIN - base % MIN) / 10**6 + 90.0, "idx": 0, "cron": new, "id": es[0]["id"]})
        if d["dst_local"] and not retime:
            # the scheduler PROCESS lives in a DST zone and the run starts a minute or two before one of that zone's transitions
            zone, k_, before = d["dst_local"]
            tr_ = [t for t in transitions(zone) if t > clock.to_us(dtm.datetime(2020, 1, 1, tzinfo=clock.UTC))]
            t_us = tr_[k_ % len(tr_)]
            nb = (t_us - before * MIN) // MIN * MIN + base % MIN
            # entries were built for `base`; move every "current minute" expression along with the new start
            shift_min = (nb // MIN - base // MIN)
            for s_ in sources:
                for e in s_["entries"]:
                    if "cron" in e and not e.get("malformed"):
                        f0 = e["cron"].split()[0]
                        if f0.isdigit():
                            e["cron"] = " ".join([str((int(f0) + shift_min) % 60)] + e["cron"].split()[1:])
                        elif "," in f0 and all(x.isdigit() for x in f0.split(",")):
                            e["cron"] = " ".join([",".join(str((int(x) + shift_min) % 60) for x in f0.split(","))] + e["cron"].split()[1:])
            return {"loop": True, "base_us": nb, "horizon_min": d["h"], "sources": sources, "latencies": d["kick_lat"], "kick_fail": [], "local_zone": zone}
        if retime:
            return {"loop": True, "base_us": base, "horizon_min": d["h"], "sources": sources, "latencies": d["kick_lat"], "kick_fail": [], "retime": retime}
        return {"loop": True, "base_us": base, "horizon_min": d["h"], "sources": sources, "latencies": d["kick_lat"], "kick_fail": []}

    ent = st.tuples(st.sampled_from(["cur", "next", "next", "next2", "any", "even", "pair"]), st.sampled_from(["* * * *", "* * * *", "*/1 * * *"]),
                    st.one_of(st.none(), st.none(), st.fixed_dictionaries({"td_us": st.sampled_from([3600 * 10**6, -1800 * 10**6, 90 * 10**6])}),
                              st.fixed_dictionaries({"zone": st.sampled_from(["Asia/Kolkata", "Asia/Kathmandu", "Europe/Berlin"])})))
    return st.fixed_dictionaries({
        "base": st.integers(clock.to_us(dtm.datetime(2024, 1, 1, tzinfo=clock.UTC)), clock.to_us(dtm.datetime(2026, 1, 1, tzinfo=clock.UTC))),
        "bsec": st.sampled_from([0.0, 30.0, 55.0, 57.5, 59.0, 59.9]), "h": st.integers(2, 3),
        # the first source is the label-based one: all its entries are declared on ONE task, each with an offset of its own (or none)
        "label": st.sampled_from([False, True]),
        "shot_first": st.sampled_from([False, False, True]),
        "broken_first": st.sampled_from([None, None, None, "30 12 * *", "* */x * * *", "*/x * * * *", "61 * * * *"]),
        "dst_local": st.one_of(st.none(), st.none(), st.none(), st.tuples(st.sampled_from(["Europe/Berlin", "America/New_York", "Australia/Lord_Howe"]), st.integers(0, 40), st.integers(0, 2))),
        "retime": st.sampled_from([None, None, "all", "none", "third"]),
        # how long the broker takes to accept a message: a send that is still in progress when the next matching minute arrives
        # does not make the schedule any less due
        "kick_lat": st.sampled_from([[0.0], [0.0], [0.0], [90.0], [61.0, 0.0], [0.5]]),
        "sources": st.lists(st.tuples(st.sampled_from([0.0, 0.0, 0.4, 3.0, 5.0, 61.0]), st.lists(ent, min_size=1, max_size=3)), min_size=1, max_size=2),
    }).map(fin)


def run_loop_case(case: Dict[str, Any]) -> Outcome:
    from vt.harness import sched

    MIN = 60 * 10**6
    out = Outcome()
    out.clauses_checked = ["C13.a"]
    res = sched.run_sched(case)
    if res["crashed"] or res["deadlock"]:
        out.add("C13.a", f"the scheduler loop stopped: {res['loop_exc']}")
        return out
    polls = list(res["polls"].values())
    n_pass = min(len(p) for p in polls)
    ent = {e["id"]: e for s in case["sources"] for e in s["entries"]}
    crossed = False
    for j in range(n_pass):
        if any("ret" not in p[j] for p in polls):
            continue        # listing still in flight when the run ended
        start = min(p[j]["t"] for p in polls)
        ev = max(p[j]["ret"] for p in polls)
        crossed = crossed or (start // MIN != ev // MIN)
        listed = [i for p in polls for i in p[j]["listed"] if "cron" in ent[i] and not ent[i].get("malformed")]
        def cron_at(i: str, us: int) -> str:
            # the expression an entry had when ITS source was asked in this pass (a slow sibling source delays only the evaluation)
            for rt in case.get("retime", ()):
                asked = next((p[j]["t"] for p in polls if i in p[j]["listed"]), us)
                if rt["id"] == i and asked >= case["base_us"] + int(rt["at_s"] * 10**6):
                    return rt["cron"]
            return ent[i]["cron"]

        want = sorted(i for i in listed if cron.matches(cron_at(i, ev), local_of(ev, ent[i]["offset"])))
        got = sorted(k["tag"] for k in res["kicks"] if abs(k["t"] - ev) <= 2 and k["tag"] in ent and "cron" in ent[k["tag"]] and not ent[k["tag"]].get("malformed"))
        if want != got:
            out.add("C13.a", f"pass {j}: listing started {clock.from_us(start).time().isoformat()} and completed {clock.from_us(ev).time().isoformat()} UTC; sent at that instant "
                             f"{[(i, cron_at(i, ev), ent[i]['offset']) for i in got]}, but the expressions matching that minute are {[(i, cron_at(i, ev), ent[i]['offset']) for i in want]}"
                             + (f" (entry {case['retime'][0]['id']} was re-timed in place to {case['retime'][0]['cron']!r} at +{case['retime'][0]['at_s']} s)" if case.get("retime") else ""))
            break
    if not out.violations and all(float(s_.get("list_latency") or 0.0) < 5.0 for s_ in case["sources"]) and n_pass < case["horizon_min"]:
        # sources that answer at once are looked at in every minute of the run; a minute without an evaluation is a minute in which no
        # matching expression was found due
        out.add("C13.a", f"only {n_pass} evaluation passes in a run of {case['horizon_min']} minutes (passes started at "
                         f"{[clock.from_us(min(p[j]['t'] for p in polls)).time().isoformat() for j in range(n_pass)]} UTC, process zone {case.get('local_zone', 'Asia/Kathmandu')}): "
                         f"schedules whose expression matched the minutes in between were not found due")
    out.nontrivial = crossed or any(s_["kind"] == "label" and len({repr(e.get("offset")) for e in s_["entries"]}) > 1 for s_ in case["sources"])
    out.classes = ["loop"] + (["label_source_mixed_offsets"] if any(s_["kind"] == "label" and len({repr(e.get("offset")) for e in s_["entries"]}) > 1 for s_ in case["sources"]) else []) + (["listing_crossed_minute_boundary"] if crossed else []) + (["slow_source"] if any(s["list_latency"] for s in case["sources"]) else []) + (["label_entry_retimed_in_place"] if case.get("retime") else []) + (["process_zone_crosses_dst_transition"] if case.get("local_zone") else []) + (["unparsable_sibling_listed_first"] if any(e.get("malformed") for s_ in case["sources"] for e in s_["entries"]) else []) + (["one_shot_listed_before_crons_live_list"] if any(s_.get("live_list") for s_ in case["sources"]) else []) + (["send_outlasts_a_minute"] if max(case.get("latencies") or [0.0]) > 60 else [])
    out.trace = {"kicks": [[k["tag"], k["t"] - case["base_us"]] for k in res["kicks"]][:12]}
    return out


_base_parts, _base_run = parts, run_case


def parts(tier: str) -> List[Part]:  # type: ignore[no-redef]
    n = 2500 if tier == "thorough" else 150
    return _base_parts(tier) + [Part("loop_runs", "given", shards=4, examples=n, strategy=loop_runs, soft_deadline_s=1500 if tier == "thorough" else 100)]


def run_case(case: Dict[str, Any]) -> Outcome:  # type: ignore[no-redef]
    return run_loop_case(case) if case.get("loop") else _base_run(case)


SELFTEST_CASES = [{"expr": "*/5 * * * *", "offset": {"zone": "Asia/Kathmandu"}, "t_us": Y0 + 12345678901, "alt": [3, 5]}]
