"""C19 - any task exception survives result serialisation."""
from __future__ import annotations

import asyncio
import json
import pickle
import sys
from typing import Any, Dict, List, Optional

from hypothesis import strategies as st

from taskiq.exceptions import NoResultError, SecurityError, SendTaskError, TaskiqResultTimeoutError
from taskiq.result import TaskiqResult

from vt.core.engine import Outcome, Part, short
from vt.harness import excat

PID = "C19"
RULE = (
    "Hypothesis-generated exception graphs as recipes: 1-6 nodes, each a class from a 38-entry catalogue (builtins incl. "
    "OSError family / UnicodeDecodeError / KeyError / StopIteration / ExceptionGroup, BaseException subclasses, "
    "un-encodable state attached to the instance (not its arguments), classes with value equality (hand-written __eq__/__hash__, a dataclass exception) with distinct-but-equal objects on one chain, module-level, nested, function-local, type()-created, name-shadowing, unloaded-module and module-less (__module__ None) classes, custom __init__ "
    "signatures, taskiq's own errors), 0-3 args from JSON-native values (incl. >64-bit ints, nested containers) or 23 "
    "awkward ones (bytes, set, complex, datetime, Decimal, lambda, lock, generator, un-repr-able object, nan/inf, tuple, "
    "int-keyed dict, str subclass, lone-surrogate text and key, NUL, exception instances incl. ones that pickle but cannot be unpickled), cause / context edges to ANY node (shared nodes, "
    "self loops, cycles) and the suppress flag. Each graph is stored and loaded through JSON text, JSON dict and pickle. "
    "Oracle: (a) never raises; (b) the loaded error is a BaseException; (c) class resolvable + args strictly "
    "representable + cls(*args) rebuilds => same class and equal (JSON-normalised) args; (d) otherwise a stand-in "
    "(same-named synthetic class, reconstructible base class, or generic/wrapper whose text names the class) with "
    "un-encodable args as str; (e) JSON: cause, context-unless-suppressed and the suppress flag correspond node by node, "
    "edges back to the current path are None. A second part, 'histories', stores results and loads them 1-8 times while the "
    "modules defining the exception classes are unloaded / imported / re-defined in between (module names unique per "
    "case): every load is judged against what is importable at that moment (the current class object, else a stand-in). "
    "Non-trivial: >=2 nodes with a non-resolvable class or a non-encodable "
    "arg, or a cycle; distinct = canonical JSON of the recipe."
)
ASSUMPTIONS = [
    "'strictly representable' is decided by the oracle: json.loads(json.dumps(a, allow_nan=False)) is the identity on a "
    "incl. types and key order and the text encodes to UTF-8; lossy-but-legal shapes (tuple, nan/inf, int keys) must "
    "not fail but no equality is demanded",
    "argument nesting deeper than pydantic-core's 255 limit is outside the generated domain (depth <= 5)",
    "pydantic v2 result model (taskiq/result/v2.py) - the one selected by the installed pydantic",
]

CLASSES: Dict[str, Any] = dict(
    ValueError=ValueError, KeyError=KeyError, OSError=OSError, FileNotFoundError=FileNotFoundError, StopIteration=StopIteration,
    SystemExit=SystemExit, KeyboardInterrupt=KeyboardInterrupt, GeneratorExit=GeneratorExit, CancelledError=asyncio.CancelledError,
    TimeoutError=TimeoutError, ZeroDivisionError=ZeroDivisionError, RecursionError=RecursionError, UnicodeDecodeError=UnicodeDecodeError,
    UnicodeEncodeError=UnicodeEncodeError, ExceptionGroup=ExceptionGroup, AttributeError=AttributeError,
    ModErr=excat.ModErr, ModBase=excat.ModBase, Inner=excat.Outer.Inner, Innermost=excat.Outer.Deeper.Innermost, TwoArgs=excat.TwoArgs,
    KwOnly=excat.KwOnly, NoArgsKept=excat.NoArgsKept, WithState=excat.WithState, DerivedKeyErr=excat.DerivedKeyErr, PickyInit=excat.PickyInit, ValueInit=excat.ValueInit,
    ValueEq=excat.ValueEq, DataErr=excat.DataErr, FalsyErr=excat.FalsyErr, MixErr=excat.MixErr, LocMix=excat.make_local_mixin(),
    Loc=excat.make_local(), LocB=excat.make_local_base(), Dyn=excat.Dyn, DynHidden=excat.DynHidden, DynShadow=excat.DynShadow, DynNoModule=excat.DynNoModule,
    CustomModErr=excat.CustomModErr, BadReprExc=excat.BadReprExc, TqTimeout=TaskiqResultTimeoutError, NoResult=NoResultError, Security=SecurityError, SendTask=SendTaskError,
)

JSONV = st.recursive(
    st.one_of(st.none(), st.booleans(), st.integers(-2**70, 2**70), st.floats(allow_nan=False, allow_infinity=False), st.text(max_size=5)),
    lambda c: st.one_of(st.lists(c, max_size=3), st.dictionaries(st.text(max_size=3), c, max_size=3)), max_leaves=6)
ARG = st.one_of(JSONV.map(lambda v: ["json", v]), JSONV.map(lambda v: ["json", v]), st.sampled_from(sorted(excat.SPECIAL)).map(lambda k: ["special", k]))
NODE = st.fixed_dictionaries(dict(
    cls=st.sampled_from(sorted(CLASSES)), args=st.lists(ARG, max_size=3),
    cause=st.one_of(st.none(), st.integers(0, 5)), ctx=st.one_of(st.none(), st.integers(0, 5)), suppress=st.booleans(),
    # something un-encodable attached to the INSTANCE after it was built (a lock, a generator, a response object kept on the error)
    state=st.sampled_from([None, None, None, "lock", "generator", "lambda"])))


def graphs() -> Any:
    def fin(d: Dict[str, Any]) -> Dict[str, Any]:
        # `like`: a node that is a different object with the class and arguments of another node (re-raising an equal
        # error while handling the first one); with a value-equal class the two compare equal without being the same object
        nodes = d["nodes"]
        for i, (like, veq) in enumerate(d["like"][:len(nodes)]):
            if like is not None and like < len(nodes) and like != i:
                nodes[i]["cls"], nodes[i]["args"] = nodes[like]["cls"], [list(a) for a in nodes[like]["args"]]
                if veq:
                    nodes[i]["cls"] = nodes[like]["cls"] = veq
                    nodes[i]["args"] = nodes[like]["args"] = [a for a in nodes[like]["args"] if a[0] == "json"][:2]
        return {"nodes": nodes}

    like = st.tuples(st.one_of(st.none(), st.none(), st.integers(0, 5)), st.sampled_from([None, "ValueEq", "DataErr"]))
    return st.fixed_dictionaries({"nodes": st.lists(NODE, min_size=1, max_size=6), "like": st.lists(like, min_size=6, max_size=6)}).map(fin)


def parts(tier: str) -> List[Part]:
    if tier == "thorough":
        return [Part("graphs", "given", shards=16, examples=15000, strategy=graphs, soft_deadline_s=3000),
                # the same strategy driven by libFuzzer (atheris), guided by branch coverage of the `taskiq` package
                Part("graphs_cov", "covguided", shards=4, examples=15000, strategy=graphs, soft_deadline_s=3000)]
    return [Part("graphs", "given", shards=8, examples=1200, strategy=graphs, soft_deadline_s=150)]


def build(g: List[Dict[str, Any]]) -> BaseException:
    objs: List[BaseException] = []
    for nd in g:
        cls = CLASSES[nd["cls"]]
        args = [a[1] if a[0] == "json" else excat.SPECIAL[a[1]]() for a in nd["args"]]
        try:
            if cls is excat.KwOnly:
                e = cls(code=args[0] if args else None)
            elif cls is TaskiqResultTimeoutError:
                e = cls(timeout=1.5)
            elif cls is SecurityError:
                e = cls(description="d")
            elif cls is UnicodeDecodeError:
                e = cls("utf-8", b"\xff", 0, 1, "bad")
            elif cls is UnicodeEncodeError:
                e = cls("utf-8", "caf\udce9", 3, 4, "surrogates not allowed")
            elif cls is ExceptionGroup:
                e = cls("g", [ValueError(1)])
            else:
                e = cls(*args)
        except Exception:  # noqa: BLE001
            e = ValueError("ctor failed")
        if nd.get("state"):
            try:
                e.kept_state = excat.SPECIAL[nd["state"]]()  # type: ignore[attr-defined]
            except Exception:  # noqa: BLE001 - classes without an instance dict
                pass
        objs.append(e)
    for i, nd in enumerate(g):
        if nd["cause"] is not None and nd["cause"] < len(objs):
            objs[i].__cause__ = objs[nd["cause"]]
        if nd["ctx"] is not None and nd["ctx"] < len(objs):
            objs[i].__context__ = objs[nd["ctx"]]
        objs[i].__suppress_context__ = nd["suppress"]
    return objs[0]


def resolvable(cls: type) -> bool:
    mod = sys.modules.get(cls.__module__) if isinstance(cls.__module__, str) else None
    if mod is None:
        return False
    obj: Any = mod
    try:
        for part in cls.__qualname__.split("."):
            obj = getattr(obj, part)
    except AttributeError:
        return False
    return obj is cls


def strict_json(a: Any) -> Any:
    try:
        s = json.dumps(a, allow_nan=False)
        back = json.loads(s)
        json.dumps(a, ensure_ascii=False).encode("utf-8")
        return True, back
    except Exception:  # noqa: BLE001
        return False, None


def unencodable(a: Any) -> bool:
    """Not encodable at all (as opposed to lossy-but-legal shapes such as nan, tuples, int keys)."""
    try:
        json.dumps(a, ensure_ascii=False).encode("utf-8")
        return False
    except Exception:  # noqa: BLE001
        return True


def deep_exact(a: Any, b: Any) -> bool:
    if type(a) is not type(b):
        return False
    if isinstance(a, list):
        return len(a) == len(b) and all(deep_exact(x, y) for x, y in zip(a, b))
    if isinstance(a, dict):
        return list(a) == list(b) and all(deep_exact(a[k], b[k]) for k in a)
    return a == b


def safe_args_text(x: Any) -> str:
    try:
        return str(x)
    except Exception:  # noqa: BLE001
        parts_ = []
        for a in x:
            try:
                parts_.append(str(a))
            except Exception:  # noqa: BLE001
                parts_.append("?")
        return " ".join(parts_)


def check_json(orig: BaseException, loaded: Any, path: str, out: Outcome, seen: frozenset, kind: str) -> None:
    if not isinstance(loaded, BaseException):
        out.add("C19.b", f"[{kind}] loaded error at {path} is {type(loaded).__name__}, not an exception")
        return
    cls = type(orig)
    name = cls.__name__
    args = orig.args
    enc = [strict_json(a) for a in args]
    exact = [ok and deep_exact(a, b) for a, (ok, b) in zip(args, enc)]
    norm = tuple(b for _, b in enc)
    rebuild = False
    if resolvable(cls) and all(exact):
        try:
            r = cls(*norm)
            rebuild = r.args == norm
        except Exception:  # noqa: BLE001
            rebuild = False
    if rebuild:
        if type(loaded) is not cls:
            out.add("C19.c", f"[{kind}] {path}: loaded class {type(loaded).__module__}.{type(loaded).__name__} != original {cls.__module__}.{cls.__qualname__}")
        elif loaded.args != norm:
            out.add("C19.c", f"[{kind}] {path}: loaded args {short(loaded.args, 200)} != original {short(norm, 200)}")
    else:
        t = type(loaded)
        ok = (t.__name__ == cls.__qualname__ or t.__name__ == name or t is cls
              or (t is Exception and name in safe_args_text(loaded.args)))
        if not ok:
            out.add("C19.d", f"[{kind}] {path}: stand-in {t.__module__}.{t.__name__}{short(loaded.args, 120)} does not name original class {name}")
        elif t is not Exception and len(loaded.args) == len(args):
            for i, a in enumerate(args):
                la = loaded.args[i]
                if exact[i]:
                    if not deep_exact(la, norm[i]):
                        out.add("C19.d", f"[{kind}] {path}: representable arg #{i} changed: {short(la, 80)} != {short(norm[i], 80)}")
                elif unencodable(a) and not isinstance(la, str):
                    out.add("C19.d", f"[{kind}] {path}: un-encodable arg #{i} loaded as {type(la).__name__}, expected its text form")
    if loaded.__suppress_context__ != orig.__suppress_context__:
        out.add("C19.e", f"[{kind}] {path}: __suppress_context__ {loaded.__suppress_context__} != {orig.__suppress_context__}")
    seen = seen | {id(orig)}
    for attr, use in (("__cause__", True), ("__context__", not orig.__suppress_context__)):
        o = getattr(orig, attr)
        l = getattr(loaded, attr)
        if o is None or not use or id(o) in seen:
            if l is not None:
                out.add("C19.e", f"[{kind}] {path}: unexpected {attr} on the loaded error ({type(l).__name__})")
        elif l is None:
            out.add("C19.e", f"[{kind}] {path}: {attr} ({type(o).__name__}) lost")
        else:
            check_json(o, l, path + "/" + attr[2:-2], out, seen, kind)


def check_pickle(orig: BaseException, loaded: Any, out: Outcome) -> None:
    if not isinstance(loaded, BaseException):
        out.add("C19.b", f"[pickle] loaded error is {type(loaded).__name__}, not an exception")
        return
    cls = type(orig)
    args = orig.args

    def pk(a: Any) -> bool:
        try:
            b = pickle.loads(pickle.dumps(a))
            return (b == a) is True
        except Exception:  # noqa: BLE001
            return False

    ok = resolvable(cls) and all(pk(a) for a in args)
    if ok:
        # "representable" = the error can be carried over by its class and arguments: the instance itself pickles, or a
        # fresh cls(*args) does (the instance may hold un-picklable state next to its arguments)
        def carries(x: Any) -> bool:
            try:
                return pickle.loads(pickle.dumps(x)).args == args
            except Exception:  # noqa: BLE001
                return False

        try:
            ok = cls(*args).args == args and (carries(orig) or carries(cls(*args)))
        except Exception:  # noqa: BLE001
            ok = False
    if ok:
        if type(loaded) is not cls:
            out.add("C19.c", f"[pickle] loaded class {type(loaded).__name__} != original {cls.__qualname__}")
        elif loaded.args != args:
            out.add("C19.c", f"[pickle] loaded args {short(loaded.args, 200)} != original {short(args, 200)}")
    else:
        t = type(loaded)
        if not (t is cls or t.__name__ == cls.__name__ or t in cls.__mro__ or cls.__name__ in safe_args_text(loaded.args)):
            out.add("C19.d", f"[pickle] stand-in {t.__module__}.{t.__name__} does not relate to original class {cls.__name__}")


def has_cycle(g: List[Dict[str, Any]]) -> bool:
    n = len(g)
    color = [0] * n

    def dfs(i: int) -> bool:
        color[i] = 1
        for k in ("cause", "ctx"):
            j = g[i][k]
            if j is not None and j < n:
                if color[j] == 1 or (color[j] == 0 and dfs(j)):
                    return True
        color[i] = 2
        return False

    return dfs(0)


def run_case(case: Dict[str, Any]) -> Outcome:
    out = Outcome()
    g = case["nodes"]
    out.clauses_checked = ["C19.a", "C19.b", "C19.c", "C19.d", "C19.e"]
    for kind in ("json", "dict", "pickle"):
        exc = build(g)
        try:
            r = TaskiqResult(is_err=True, return_value=None, execution_time=0.1, error=exc)
            if kind == "json":
                l = TaskiqResult.model_validate_json(r.model_dump_json())
            elif kind == "dict":
                l = TaskiqResult.model_validate(r.model_dump())
            else:
                l = pickle.loads(pickle.dumps(r))
        except BaseException as ex:  # noqa: BLE001
            out.add("C19.a", f"[{kind}] round trip raised {type(ex).__name__}: {short(ex, 300)}")
            continue
        if kind == "pickle":
            check_pickle(exc, l.error, out)
        else:
            check_json(exc, l.error, "root", out, frozenset(), kind)
    reach = set()
    stack = [0]
    while stack:
        i = stack.pop()
        if i in reach or i >= len(g):
            continue
        reach.add(i)
        for k in ("cause", "ctx"):
            if g[i][k] is not None:
                stack.append(g[i][k])
    nonres = any(not resolvable(CLASSES[g[i]["cls"]]) for i in reach)
    nonenc = any(a[0] == "special" for i in reach for a in g[i]["args"])
    cyc = has_cycle(g)
    rl = sorted(reach)
    twins = any(g[a]["cls"] in ("ValueEq", "DataErr") and g[a]["cls"] == g[b]["cls"] and g[a]["args"] == g[b]["args"] for a in rl for b in rl if a < b)
    out.nontrivial = bool((len(reach) >= 2 and (nonres or nonenc)) or cyc or twins)
    out.classes = [c for c, f in (("cycle", cyc), ("non_resolvable_class", nonres), ("awkward_arg", nonenc), ("value_equal_distinct_nodes", twins), ("unencodable_instance_state", any(g[i].get("state") for i in reach)),
                                  ("chain>=3", len(reach) >= 3), ("single_node", len(reach) == 1)) if f]
    out.trace = {"reachable_nodes": len(reach)}
    return out


SELFTEST_CASES = [{"nodes": [{"cls": "TwoArgs", "args": [["json", 1], ["special", "lock"]], "cause": 1, "ctx": 0, "suppress": False},
                             {"cls": "Loc", "args": [["special", "badrepr"]], "cause": 0, "ctx": None, "suppress": True}]}]


# ---------------------------------------------------------------- histories: store / load interleaved with module (un)loading
#
# "The loaded error is an exception of the original class WHENEVER that class is importable": the verdict belongs to the
# moment of loading.  A result stored by a worker may be loaded while the application module is not imported (stand-in),
# and again after it has been imported or reloaded (the real, current class).  Module names are unique per case.

import types as _types

_HCOUNT = [0]


def _define_app_module(name: str) -> None:
    m = _types.ModuleType(name)
    AppError = type("AppError", (Exception,), {"__module__": name})
    Inner = type("Inner", (ValueError,), {"__module__": name, "__qualname__": "Outer.Inner"})
    Outer = type("Outer", (), {"__module__": name, "Inner": Inner})
    Root = type("Root", (BaseException,), {"__module__": name})
    m.AppError, m.Outer, m.Root = AppError, Outer, Root  # type: ignore[attr-defined]
    sys.modules[name] = m


def history_cases() -> Any:
    cls = st.sampled_from(["AppError", "Outer.Inner", "Root"])
    args = st.lists(st.one_of(st.integers(-5, 5), st.text(alphabet="abc", max_size=3), st.none()), max_size=2)
    dump = st.fixed_dictionaries({"op": st.just("dump"), "m": st.integers(0, 1), "cls": cls, "args": args,
                                  "cause": st.one_of(st.none(), st.tuples(st.integers(0, 1), cls).map(list))})
    load = st.fixed_dictionaries({"op": st.just("load"), "k": st.integers(0, 7), "kind": st.sampled_from(["json", "dict"])})
    other = st.fixed_dictionaries({"op": st.sampled_from(["unload", "define", "define"]), "m": st.integers(0, 1)})
    return st.fixed_dictionaries({"ops": st.lists(st.one_of(dump, load, load, other), min_size=3, max_size=12)})


def _get(name: str, qual: str) -> Any:
    obj: Any = sys.modules.get(name)
    if obj is None:
        return None
    for part in qual.split("."):
        obj = getattr(obj, part, None)
        if obj is None:
            return None
    return obj


def run_history(case: Dict[str, Any]) -> Outcome:
    out = Outcome()
    out.clauses_checked = ["C19.a", "C19.c", "C19.d", "C19.e"]
    _HCOUNT[0] += 1
    names = [f"vt_c19h{_HCOUNT[0]}_{i}" for i in range(2)]
    blobs: List[Any] = []
    loads = changed = 0
    try:
        for n in names:
            _define_app_module(n)
        for op in case["ops"]:
            if op["op"] == "unload":
                sys.modules.pop(names[op["m"]], None)
                changed += 1 if blobs else 0
            elif op["op"] == "define":
                _define_app_module(names[op["m"]])
                changed += 1 if blobs else 0
            elif op["op"] == "dump":
                cls = _get(names[op["m"]], op["cls"])
                if cls is None:
                    continue   # the worker can only raise classes of modules it has imported
                exc = cls(*op["args"])
                spec = {"mod": names[op["m"]], "cls": op["cls"], "args": tuple(op["args"]), "cause": None}
                if op["cause"]:
                    ccls = _get(names[op["cause"][0]], op["cause"][1])
                    if ccls is not None:
                        exc.__cause__ = ccls("because")
                        spec["cause"] = {"mod": names[op["cause"][0]], "cls": op["cause"][1], "args": ("because",), "cause": None}
                try:
                    r = TaskiqResult(is_err=True, return_value=None, execution_time=0.1, error=exc)
                    blobs.append((spec, r.model_dump_json(), r.model_dump()))
                except BaseException as ex:  # noqa: BLE001
                    out.add("C19.a", f"[history] dumping {op['cls']} raised {type(ex).__name__}: {short(ex, 200)}")
            elif blobs:
                spec, js, dct = blobs[op["k"] % len(blobs)]
                try:
                    l = TaskiqResult.model_validate_json(js) if op["kind"] == "json" else TaskiqResult.model_validate(dct)
                except BaseException as ex:  # noqa: BLE001
                    out.add("C19.a", f"[history/{op['kind']}] loading raised {type(ex).__name__}: {short(ex, 200)}")
                    break
                loads += 1
                node, loaded, path = spec, l.error, "root"
                while node is not None:
                    now = _get(node["mod"], node["cls"])
                    short_mod = node["mod"].split("_")[-1]
                    if not isinstance(loaded, BaseException):
                        out.add("C19.b", f"[history] {path}: loaded {type(loaded).__name__}")
                        break
                    if now is not None:
                        if type(loaded) is not now:
                            out.add("C19.c", f"[history/{op['kind']}] {path}: class {node['cls']} of module #{short_mod} is importable now, but the loaded error is "
                                             f"{type(loaded).__module__}.{type(loaded).__qualname__} (id differs from the current class: stale or stand-in)")
                        elif loaded.args != node["args"]:
                            out.add("C19.c", f"[history] {path}: args {loaded.args!r} != {node['args']!r}")
                    else:
                        if type(loaded).__name__ != node["cls"] or not isinstance(loaded, Exception) or loaded.args != node["args"]:
                            out.add("C19.d", f"[history/{op['kind']}] {path}: module #{short_mod} is not loaded now, expected a stand-in named {node['cls']!r} with equal "
                                             f"args, got {type(loaded).__module__}.{type(loaded).__name__}{loaded.args!r}")
                    if node["cause"] is not None and loaded.__cause__ is None:
                        out.add("C19.e", f"[history] {path}: cause lost")
                        break
                    node, loaded, path = node["cause"], loaded.__cause__, path + "/cause"
                if out.violations:
                    break
        out.nontrivial = bool(loads >= 2 and changed >= 1)
        out.classes = ["history"] + (["module_state_changed_between_loads"] if changed and loads else [])
        out.trace = {"loads": loads, "module_changes": changed, "blobs": len(blobs)}
    finally:
        for n in names:
            sys.modules.pop(n, None)
    return out


_parts_single = parts
_run_single = run_case


def parts(tier: str) -> List[Part]:  # type: ignore[no-redef]
    ps = _parts_single(tier)
    if tier == "thorough":
        ps.append(Part("histories", "given", shards=4, examples=8000, strategy=history_cases, soft_deadline_s=1200))
    else:
        ps.append(Part("histories", "given", shards=2, examples=1200, strategy=history_cases, soft_deadline_s=100))
    return ps


def run_case(case: Dict[str, Any]) -> Outcome:  # type: ignore[no-redef]
    if "ops" in case:
        return run_history(case)
    return _run_single(case)


SELFTEST_CASES.append({"ops": [{"op": "dump", "m": 0, "cls": "Outer.Inner", "args": [1], "cause": [1, "AppError"]}, {"op": "unload", "m": 0},
                               {"op": "load", "k": 0, "kind": "json"}, {"op": "define", "m": 0}, {"op": "load", "k": 0, "kind": "dict"}]})
