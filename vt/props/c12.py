"""C12 - dependencies are torn down exactly once, before the result becomes visible."""
from __future__ import annotations

import asyncio
import contextvars
from typing import Any, Dict, List, Optional

from hypothesis import strategies as st

from taskiq.abc.broker import AckableMessage
from taskiq.acks import AcknowledgeType
from taskiq.kicker import AsyncKicker
from taskiq.receiver import Receiver

from vt.core.engine import Outcome, Part, Violation
from vt.core.vloop import Deadlock, VirtualTimeLoop
from vt.harness import depgraph as dg
from vt.harness import worker as wh

EXEC: contextvars.ContextVar = contextvars.ContextVar("vt_execution", default=None)

PID = "C12"
RULE = (
    "[plus a small 'cli_wiring' part: generated `taskiq worker` flag sets parsed by the real WorkerArgs.from_cli and turned into a receiver by the real start_listen(); --no-propagate-errors switches exception propagation off, default on] "
    "Hypothesis-generated programs: a task with a dependency DAG of 1-6 nodes (depth <= 3) mixing plain sync/async "
    "functions with the four teardown styles (generator, async generator, @contextmanager, @asynccontextmanager), each "
    "edge cached or use_cache=False, a node may fail before its yield (dependency-resolution failure), a yielding node "
    "may swallow or re-raise an exception thrown into it; task outcome return / raise / BaseException / NoResultError (no result is stored, the exception still is the task's exception) / an exception whose own __str__ raises / an exception instance that is falsy (len() == 0) / timeout label "
    "exceeded, the task function optionally with an asynchronous clean-up in its `finally` (so that after a timeout cancellation it needs further loop iterations to finish); propagate_exceptions on/off; three acknowledge types; driven through the worker's Receiver or through the bundled InMemoryBroker (whose own propagate_exceptions / await_inplace arguments configure the receiver it embeds); 1-3 overlapping executions on the virtual-time "
    "loop. Oracle per execution over the log of open / saw / close / enter / exit / save / ack events: (a) every opened "
    "yielding node is closed exactly once; (b) closes are in reverse order of opens; (c) every close happens after the "
    "task function exited (or after the failing dependency) and before the result is stored, and before the ack for "
    "when_executed / when_saved; (d) the opened dependencies see the exception iff propagation is enabled and the "
    "outcome is an exception; exactly one save and one ack. Non-trivial: >=2 yielding nodes opened and an outcome other "
    "than return, or >=2 overlapping executions; distinct = canonical JSON."
)
ASSUMPTIONS = [
    "a dependency whose own teardown code raises is outside the property (the statement does not define that outcome)",
    "open known finding C12-uncached-nested-order (teardown order when a use_cache=False dependency has a yielding "
    "descendant; the ordering code is in the pinned third-party wheel taskiq_dependencies 1.5.7) is excluded by signature and counted",
]


def node(i: int) -> Any:
    return st.fixed_dictionaries(dict(
        style=st.sampled_from(["sync", "async", "gen", "agen", "cm", "acm", "gen", "agen"]),
        ctx=st.just(False), sleep=st.sampled_from([0, 0, 0.05]), tsleep=st.sampled_from([0, 0, 0, 0.8, 8.0]),
        fail=st.sampled_from([None, None, None, None, None, "before"]), swallow=st.booleans(), affine=st.sampled_from([False, False, True]),
        fail_exc=st.sampled_from(["RuntimeError", "RuntimeError", "TimeoutError", "KeyError", "asyncio.CancelledError", "ConnectionError"]),
        deps=st.lists(st.tuples(st.integers(0, max(i - 1, 0)), st.sampled_from([True, True, False])).map(list), max_size=2 if i > 0 else 0, unique_by=lambda x: x[0]),
    ))


def cases() -> Any:
    return st.integers(1, 6).flatmap(lambda n: st.fixed_dictionaries({
        "nodes": st.tuples(*[node(i) for i in range(n)]).map(list),
        "task_deps": st.lists(st.tuples(st.integers(0, n - 1), st.sampled_from([True, True, False])).map(list), min_size=1, max_size=3, unique_by=lambda x: x[0]),
        "outcome": st.sampled_from(["ret", "ret", "raise", "base", "timeout", "nores", "badstr", "falsy"]),
        "propagate": st.booleans(),
        "ack_type": st.sampled_from(["when_received", "when_executed", "when_saved"]),
        "starts": st.lists(st.sampled_from([0, 0, 0.05, 0.1]), min_size=1, max_size=3),
        "cleanup": st.sampled_from([0, 0, 0.05, 0.2]),
        # a timeout label the task function stays well within (it bounds the function, not the teardown of its dependencies)
        "slack_timeout": st.sampled_from([None, None, 0.5]),      # function: <= 0.05 + 0.2 s; a slow teardown: 0.8 s
        # how the execution is driven: the worker's Receiver (ackable message) or the bundled InMemoryBroker, whose own
        # propagate_exceptions / await_inplace arguments configure the receiver it embeds
        "via": st.sampled_from(["receiver", "receiver", "inmemory", "inmemory_inplace"]),
        "startup": st.booleans(),
        # a middleware whose on_error hook itself fails (worker driven through the Receiver): the callback is aborted, the dependencies
        # that were opened are finalised all the same
        "on_error_fails": st.sampled_from([False, False, False, True]),
        # all (overlapping) executions carry the SAME task id: a redelivery, a message kicked twice
        "same_id": st.sampled_from([False, False, False, True]),
        "shutdown_early": st.sampled_from([False, False, True]),
        # the task function waits on a future only it references strongly, and a garbage collection runs meanwhile
        "parked": st.sampled_from([False, False, False, True]),
    }))


def parts(tier: str) -> List[Part]:
    if tier == "thorough":
        return [Part("programs", "given", shards=16, examples=10000, strategy=cases, soft_deadline_s=3000)]
    return [Part("programs", "given", shards=8, examples=400, strategy=cases, soft_deadline_s=120)]


def run_case(c: Dict[str, Any]) -> Outcome:
    out = Outcome()
    out.clauses_checked = ["C12.a", "C12.b", "C12.c", "C12.d"]
    nodes, tdeps = c["nodes"], c["task_deps"]
    loop = VirtualTimeLoop()
    loop.max_iterations = 100_000
    asyncio.set_event_loop(loop)
    logs: Dict[Any, List[Any]] = {}
    cur: Dict[Any, int] = {}

    def LOG(kind: str, node_: Any = None, *payload: Any) -> None:
        k = EXEC.get()
        logs.setdefault(k, []).append((kind, node_) + payload)

    cleanup_brokers: List[Any] = []
    held: List[Any] = []

    async def main() -> None:
        tr = wh.Trace(loop)
        b: Any = wh.ScriptedBroker(tr)

        class RB(wh.RecordingBackend):
            async def set_result(self, task_id: str, result: Any) -> None:
                LOG("save", None, bool(result.is_err), type(result.error).__name__ if result.error is not None else None)
                await super().set_result(task_id, result)

        via = c.get("via", "receiver")
        if via != "receiver":
            from taskiq import InMemoryBroker

            b = InMemoryBroker(propagate_exceptions=c["propagate"], await_inplace=(via == "inmemory_inplace"), sync_tasks_pool_size=1)
            cleanup_brokers.append(b)
            if c.get("startup"):
                await b.startup()       # what applications (and the docs' testing guide) do before sending
        b.result_backend = RB(tr)
        if c.get("on_error_fails") and via == "receiver":
            from taskiq import TaskiqMiddleware

            class FailingOnError(TaskiqMiddleware):
                async def on_error(self, message: Any, result: Any, exception: BaseException) -> None:
                    LOG("on_error_hook")
                    raise RuntimeError("error reporter is down")

            b.add_middlewares(FailingOnError())
        kind = {"ret": "ret", "raise": "raise", "base": "base", "timeout": "ret", "nores": "nores", "badstr": "badstr", "falsy": "falsy"}[c["outcome"]]
        mod, task, src = dg.build(nodes, tdeps, {"kind": kind, "cleanup": c.get("cleanup", 0), "parked": bool(c.get("parked"))}, LOG)
        b.register_task(task, task_name="t")
        r = Receiver(b, executor=wh.Inline(), max_async_tasks=10, run_startup=False, propagate_exceptions=c["propagate"],
                     ack_type=AcknowledgeType(c["ack_type"]))

        async def one(k: int, start: float) -> None:
            if start:
                await asyncio.sleep(start)
            EXEC.set(k)
            labels = {"timeout": 0.1} if c["outcome"] == "timeout" else ({"timeout": c["slack_timeout"]} if c.get("slack_timeout") else {})
            slp = 0.5 if c["outcome"] == "timeout" else 0.05
            if via != "receiver":
                await AsyncKicker("t", b, labels).with_task_id("id0" if c.get("same_id") else f"id{k}").kiq(k, slp)
                if via == "inmemory":
                    if c.get("parked"):
                        await asyncio.sleep(slp + 0.3)       # the client does something else meanwhile: nobody is waiting on the execution
                    if c.get("shutdown_early") and k == 0:
                        # the application shuts the broker down while executions are still in flight (its shutdown hooks run, nothing more);
                        # they finish - teardown included - undisturbed
                        await b.shutdown()
                    await b.wait_all()
                return
            m = b.formatter.dumps(AsyncKicker("t", b, labels).with_task_id("id0" if c.get("same_id") else f"id{k}")._prepare_message(k, slp)).message
            try:
                await r.callback(AckableMessage(data=m, ack=lambda: LOG("ack")))
            except RuntimeError as e:
                if "error reporter is down" not in str(e):
                    raise
                held.append(e)          # keep the frames alive: nothing gets finalised by the garbage collector behind the receiver's back
                LOG("callback_aborted_by_hook")

        await asyncio.gather(*[one(k, s) for k, s in enumerate(c["starts"])])
        await asyncio.sleep(1.0)   # let stragglers (a function still cleaning up after its callback returned) be observed

    try:
        try:
            loop.run_until_complete(main())
        except Deadlock as e:
            out.add("C12.a", "virtual loop deadlock: " + str(e))
        except BaseException as e:  # noqa: BLE001
            out.add("C12.a", f"processing raised {type(e).__name__}: {e}")
    finally:
        loop.max_iterations = 0
        try:
            pend = [t for t in asyncio.all_tasks(loop) if not t.done()]
            for t in pend:
                t.cancel()
            if pend:
                try:
                    loop.run_until_complete(asyncio.gather(*pend, return_exceptions=True))
                except BaseException:  # noqa: BLE001
                    pass
        finally:
            loop.close()
            asyncio.set_event_loop(None)
            for b_ in cleanup_brokers:
                b_.executor.shutdown(wait=False)

    def yielding(i: int) -> bool:
        return nodes[i]["style"] in dg.YIELDING and nodes[i]["fail"] != "before"

    info: Dict[str, Any] = {"uncached_nested": dg.uncached_with_yielding_descendant(nodes, tdeps)}
    multi_yield = False
    nonret = False
    hook_aborted = False
    for k in range(len(c["starts"])):
        log = logs.get(k, [])
        seq = [(e[0], e[1]) for e in log if e[0] in ("open", "close") and isinstance(e[1], int) and yielding(e[1])]
        stack: List[int] = []
        bal: Dict[int, int] = {}
        order_ok = True
        for kind_, i in seq:
            if kind_ == "open":
                stack.append(i)
                bal[i] = bal.get(i, 0) + 1
            else:
                bal[i] = bal.get(i, 0) - 1
                if stack and stack[-1] == i:
                    stack.pop()
                else:
                    order_ok = False
                    if i in stack:
                        stack.remove(i)
        if any(v != 0 for v in bal.values()):
            out.add("C12.a", f"execution {k}: open/close counts per node unbalanced {bal}; log={_brief(log)}")
        elif not order_ok:
            out.add("C12.b", f"execution {k}: dependencies closed in {[i for kk, i in seq if kk == 'close']}, opened in "
                             f"{[i for kk, i in seq if kk == 'open']} (not the reverse order); log={_brief(log)}")
        pos: Dict[str, List[int]] = {}
        for n, e in enumerate(log):
            pos.setdefault(e[0], []).append(n)
        closes = [n for n, e in enumerate(log) if e[0] == "close"]
        if closes:
            if pos.get("save") and max(closes) > min(pos["save"]):
                out.add("C12.c", f"execution {k}: a dependency was closed after the result was stored; log={_brief(log)}")
            if c["ack_type"] != "when_received" and pos.get("ack") and max(closes) > min(pos["ack"]):
                out.add("C12.c", f"execution {k}: a dependency was closed after the {c['ack_type']} ack; log={_brief(log)}")
            if pos.get("enter") and (not pos.get("exit") or min(closes) < max(pos["exit"])):
                out.add("C12.c", f"execution {k}: a dependency was closed before the task function finished; log={_brief(log)}")
        entered = bool(pos.get("enter"))
        failed_dep = not entered
        exc_expected = c["propagate"] and (failed_dep or c["outcome"] in ("raise", "base", "timeout", "nores", "badstr", "falsy"))
        saw = [e for e in log if e[0] == "saw"]
        n_open = sum(1 for kk, i in seq if kk == "open")
        if exc_expected:
            if len(saw) != n_open:
                out.add("C12.d", f"execution {k}: {len(saw)} of {n_open} opened dependencies saw the exception although propagation is on "
                                 f"and the outcome is {'a failed dependency' if failed_dep else c['outcome']}; log={_brief(log)}")
        elif saw:
            out.add("C12.d", f"execution {k}: dependencies saw {[e[2] for e in saw]} although propagate={c['propagate']} outcome={c['outcome']} "
                             f"failed_dep={failed_dep}; log={_brief(log)}")
        want_saves = 0 if (c["outcome"] == "nores" and entered) else 1      # NoResultError: the execution stores nothing
        if pos.get("callback_aborted_by_hook"):
            hook_aborted = True
            continue        # nothing stored, acknowledged at most at reception: the failing hook ended the processing (C10's subject)
        if len(pos.get("save", [])) != want_saves:
            out.add("C12.c", f"execution {k}: {len(pos.get('save', []))} results stored; log={_brief(log)}")
        if len(pos.get("ack", [])) != 1 and c.get("via", "receiver") == "receiver":
            out.add("C12.c", f"execution {k}: {len(pos.get('ack', []))} acks; log={_brief(log)}")
        multi_yield = multi_yield or n_open >= 2
        nonret = nonret or failed_dep or c["outcome"] != "ret"
    out.info = info
    out.nontrivial = bool((multi_yield and nonret) or len(c["starts"]) >= 2)
    out.classes = [c["outcome"], c["ack_type"], "via=" + c.get("via", "receiver"), "propagate" if c["propagate"] else "no_propagate"] + [cl for cl, f in (
        ("uncached_nested_yielding", info["uncached_nested"]), ("multi_yield", multi_yield), ("concurrent", len(c["starts"]) >= 2),
        ("async_cleanup", bool(c.get("cleanup"))), ("on_error_hook_failed", hook_aborted), ("executions_share_a_task_id", bool(c.get("same_id")) and len(c["starts"]) >= 2), ("dependency_failure", any(nodes[i]["fail"] == "before" for i in dg.reachable(nodes, tdeps)))) if f]
    out.trace = {"log0": _brief(logs.get(0, []))}
    return out


def _brief(log: List[Any]) -> str:
    return " ".join(f"{e[0]}{'' if e[1] is None else ':' + str(e[1])}" for e in log[:40])


def known(case: Dict[str, Any], v: Violation, out: Outcome) -> Optional[str]:
    if v.clause == "C12.b" and out.info.get("uncached_nested"):
        return "C12-uncached-nested-order"
    return None


SELFTEST_CASES = [{"nodes": [{"style": "gen", "ctx": False, "sleep": 0, "fail": None, "swallow": False, "deps": []},
                             {"style": "acm", "ctx": False, "sleep": 0, "fail": None, "swallow": True, "deps": [[0, True]]}],
                   "task_deps": [[1, True]], "outcome": "raise", "propagate": True, "ack_type": "when_saved", "starts": [0, 0]}]



# ---------------------------------------------------------------- CLI wiring: from worker flags to the receiver
#
# --no-propagate-errors switches exception propagation off, default on.  Flags are parsed with the real WorkerArgs.from_cli and the real start_listen() builds the receiver
# (a recording subclass whose listen() returns at once).

from vt.harness import cliwire as _cliwire

_parts_core = parts
_run_core = run_case


def parts(tier: str) -> List[Part]:  # type: ignore[no-redef]
    ps = _parts_core(tier)
    ps.append(Part("cli_wiring", "given", shards=1, examples=1500 if tier == "thorough" else 150,
                   strategy=lambda: _cliwire.FLAGS.map(lambda f: {"flags": f}), soft_deadline_s=300))
    return ps


def run_case(case: Dict[str, Any]) -> Outcome:  # type: ignore[no-redef]
    if "flags" not in case:
        return _run_core(case)
    out = Outcome()
    out.clauses_checked = ["C12.d"]
    _cliwire.check(case["flags"], ['propagate_exceptions'], "C12.d", out)
    out.nontrivial = any(case["flags"].get(k) not in (None, False) for k in case["flags"])
    out.classes = ["cli_wiring"]
    return out
