"""C08 - arguments reach the task function unchanged and bound to the right parameters."""
from __future__ import annotations

import asyncio
import dataclasses
import typing
from typing import Any, Dict, List

import pydantic
from hypothesis import strategies as st

from taskiq import AsyncBroker, Context, TaskiqDepends
from taskiq.brokers.inmemory_broker import InmemoryResultBackend
from taskiq.formatters.json_formatter import JSONFormatter
from taskiq.kicker import AsyncKicker
from taskiq.receiver import Receiver
from taskiq.serializers import PickleSerializer

from vt.core.engine import Outcome, Part, short
from vt.harness.worker import Inline

PID = "C08"
RULE = (
    "[plus a small 'cli_wiring' part: generated `taskiq worker` flag sets parsed by the real WorkerArgs.from_cli and turned into a receiver by the real start_listen(); --no-parse switches argument parsing off, default on] "
    "Hypothesis-generated task signatures (exec'd source so inspect/get_type_hints/DependencyGraph see real "
    "functions): 1-6 parameters, each un-annotated / Any / int / float / str / bool / List[int] / Dict[str,int] / "
    "Optional[int] / pydantic model / dataclass / two factory-built pydantic models that are distinct classes with an identical repr, positional-or-keyword or keyword-only, with or without default, "
    "TaskiqDepends parameters at any position (for a third of them the caller passes an explicit value by keyword, which must win over the dependency); a VALID call split (positional prefix up to the first dependency or "
    "omitted parameter, the rest by keyword, defaults optionally omitted); values JSON-exact (None, bool, ints incl. "
    ">64 bit, finite floats, surrogate-free text, nested lists/dicts) or model/dataclass instances (also models with defaulted fields left unset); validate_params "
    "on/off; codec JSON / pickle / JSONFormatter; sync or async function; in a third of the cases a shared task of the same name but with other annotations exists in the global registry (the broker's own task must win). >=50% of the cases come from a 'drift' family: "
    "all parameters passed positionally, un-annotated ones in front of / between annotated ones, each value taken from "
    "a pool of AMBIGUOUS values ('7', '1', 'true', 1, 2.0, {'x': '4'}, [1, '2'], ...) that convert differently under a "
    "neighbouring parameter's annotation - so a mis-binding is observable; a 'mixed' family (positional prefix + keyword rest, same ambiguous values) covers the args/kwargs boundary. Sent through AsyncKicker.kiq -> formatter "
    "bytes -> Receiver.callback. Oracle: per parameter, received == sent (wire form) if un-annotated/Any/parsing off, "
    "else TypeAdapter(annotation).validate_python(sent) if that succeeds else sent unchanged, type-strict; omitted "
    "parameters take their defaults; dependency parameters receive a Context; loads(dumps(m).message) == m. "
    "Non-trivial: some argument's value would convert to something different under the annotation of another "
    "parameter of the same signature than under its own; distinct = canonical JSON."
)
ASSUMPTIONS = ["pydantic's TypeAdapter is the conversion oracle: what is tested is WHICH value meets WHICH annotation",
               "deliveries are driven through Receiver.callback directly"]


class M(pydantic.BaseModel):
    x: int
    y: str = "d"


@dataclasses.dataclass
class D:
    a: int
    b: typing.List[int] = dataclasses.field(default_factory=list)


@dataclasses.dataclass(slots=True)
class DS:
    a: int
    b: typing.List[int] = dataclasses.field(default_factory=list)


def _dep_value() -> str:
    return "FROM-DEPENDENCY"


def _payload(fields: Dict[str, Any]) -> Any:
    """Factory-built models: distinct classes that print the same (`<class 'vt.props.c08.Payload'>`)."""
    return pydantic.create_model("Payload", __module__=__name__, **fields)


MA = _payload({"x": (int, ...), "y": (str, "d")})
MB = _payload({"k": (int, ...)})

class Plain:
    """a plain class: pydantic cannot build a schema for it, so a value for a parameter annotated with it arrives unchanged"""


ANN = {"Plain": "Plain", "List[Plain]": "typing.List[Plain]", "MA": "MA", "MB": "MB", "none": None, "Any": "typing.Any", "int": "int", "float": "float", "str": "str", "bool": "bool", "List[int]": "typing.List[int]",
       "Dict[str,int]": "typing.Dict[str, int]", "Optional[int]": "typing.Optional[int]", "M": "M", "D": "D"}
ANN_OBJ = {"Plain": Plain, "List[Plain]": typing.List[Plain], "MA": MA, "MB": MB, "Any": typing.Any, "int": int, "float": float, "str": str, "bool": bool, "List[int]": typing.List[int],
           "Dict[str,int]": typing.Dict[str, int], "Optional[int]": typing.Optional[int], "M": M, "D": D}

SCAL = st.one_of(st.none(), st.booleans(), st.integers(-2**70, 2**70), st.floats(allow_nan=False, allow_infinity=False),
                 st.text(alphabet=st.characters(blacklist_categories=("Cs",)), max_size=4), st.sampled_from(["1", "2.5", "true", "x"]))
JSONV = st.recursive(SCAL, lambda c: st.one_of(st.lists(c, max_size=3), st.dictionaries(st.text(alphabet=st.characters(blacklist_categories=("Cs",)), max_size=3), c, max_size=3)), max_leaves=5)
AMBIG = st.sampled_from(["7", "1", "0", "2.5", "true", "no", 1, 0, 7, 2.0, 3.5, True, False, {"x": 1}, {"x": "4"}, {"a": "1"}, {"a": 2, "b": ["3"]},
                         [1, "2"], ["5"], {"k": "3"}, {"k": 1}, [], {},
                         # dicts carrying keys the annotated model / dataclass does not declare: convertible (unknown keys are ignored)
                         {"x": 1, "note": "n"}, {"x": "4", "y": "b", "z": 0}, {"a": 1, "b": [2], "tag": "t"}, {"k": 2, "k2": 3}])
VALUE = st.one_of(
    AMBIG, AMBIG, JSONV,
    st.tuples(st.just("M"), st.integers(-5, 5), st.text(alphabet="abc", max_size=3)).map(list),
    st.tuples(st.just("M1"), st.integers(-5, 5)).map(list),
    st.tuples(st.sampled_from(["D", "D+", "DS"]), st.integers(-5, 5), st.lists(st.integers(0, 3), max_size=2)).map(list),
    st.tuples(st.sampled_from(["NL", "ND"]), st.one_of(st.tuples(st.just("M"), st.integers(-5, 5), st.text(alphabet="abc", max_size=3)).map(list),
                                                     st.tuples(st.just("D"), st.integers(-5, 5), st.lists(st.integers(0, 3), max_size=2)).map(list))).map(list),
    st.lists(st.integers(0, 9), max_size=3), st.dictionaries(st.text(alphabet="abk", max_size=2), st.integers(0, 9), max_size=2))


def _param(anns: Any, vals: Any, kwonly: Any, dflt: Any, dep: Any, omit: Any, as_kw: Any) -> Any:
    return st.fixed_dictionaries(dict(ann=anns, kwonly=kwonly, has_default=dflt, dep=dep, val=vals, omit=omit, as_kw=as_kw,
                                      dep_passed=st.sampled_from([False, False, True])))


def cases() -> Any:
    free = st.lists(_param(st.sampled_from(sorted(ANN) + ["none", "none", "int", "float", "bool"]), VALUE,
                           st.sampled_from([False, False, False, True]), st.booleans(), st.sampled_from([False] * 7 + [True]),
                           st.sampled_from([False, False, False, True]), st.sampled_from([False, False, False, True])), min_size=1, max_size=6)
    drift = st.lists(_param(st.sampled_from(["none", "none", "Any", "Plain", "int", "float", "str", "bool", "List[int]", "Dict[str,int]", "M", "D", "Optional[int]", "MA", "MB"]),
                            AMBIG, st.just(False), st.sampled_from([False, False, True]), st.just(False), st.just(False), st.just(False)),
                     min_size=2, max_size=6)
    mixed = st.lists(_param(st.sampled_from(["none", "Any", "int", "int", "float", "str", "bool", "List[int]", "Dict[str,int]", "M", "D", "MA", "MB"]),
                            AMBIG, st.sampled_from([False, False, False, False, True]), st.sampled_from([False, False, True]),
                            st.sampled_from([False] * 9 + [True]), st.sampled_from([False, False, False, True]), st.sampled_from([False, False, False, True])),
                     min_size=3, max_size=6)
    return st.fixed_dictionaries({
        "params": st.one_of(drift, drift, mixed, mixed, free),
        "validate": st.sampled_from([True, True, True, False]),
        "codec": st.sampled_from(["json", "json", "pickle", "jsonfmt"]),
        "is_async": st.booleans(),
        "wrapped": st.sampled_from([False, False, True]),
        "retried": st.sampled_from([False, False, True]),
        # parameter names p0, p1, ... or names the library itself uses for its own arguments / locals on the way to the call
        "naming": st.sampled_from(["p", "p", "internal"]),
        "late_register": st.sampled_from([False, False, True]),
        "shadow": st.sampled_from([False, False, True]),
    })


def parts(tier: str) -> List[Part]:
    if tier == "thorough":
        return [Part("signatures", "given", shards=16, examples=15000, strategy=cases, soft_deadline_s=3000),
                # the same strategy driven by libFuzzer (atheris), guided by branch coverage of the `taskiq` package
                Part("signatures_cov", "covguided", shards=4, examples=15000, strategy=cases, soft_deadline_s=3000)]
    return [Part("signatures", "given", shards=8, examples=1000, strategy=cases, soft_deadline_s=120)]


def mkval(v: Any) -> Any:
    if isinstance(v, list) and len(v) == 2 and v[0] == "NL" and isinstance(v[1], list):
        return [mkval(v[1]), 5]                    # a model / dataclass INSIDE a list argument
    if isinstance(v, list) and len(v) == 2 and v[0] == "ND" and isinstance(v[1], list):
        return {"owner": mkval(v[1]), "n": 1}      # ... inside a dict argument
    if isinstance(v, list) and len(v) == 2 and v[0] == "M1" and isinstance(v[1], int):
        return M(x=v[1])             # a model whose defaulted field was left unset by the caller
    if isinstance(v, list) and len(v) == 3 and v[0] == "M" and isinstance(v[1], int) and isinstance(v[2], str):
        return M(x=v[1], y=v[2])
    if isinstance(v, list) and len(v) == 3 and v[0] == "D" and isinstance(v[1], int) and isinstance(v[2], list):
        return D(a=v[1], b=list(v[2]))
    if isinstance(v, list) and len(v) == 3 and v[0] == "D+" and isinstance(v[1], int) and isinstance(v[2], list):
        d = D(a=v[1], b=list(v[2]))
        d.cached_total = sum(d.b) + d.a      # type: ignore[attr-defined]  # instance state that is not a dataclass field (a cached value)
        return d
    if isinstance(v, list) and len(v) == 3 and v[0] == "DS" and isinstance(v[1], int) and isinstance(v[2], list):
        return DS(a=v[1], b=list(v[2]))     # a slots dataclass: no instance __dict__
    return v


def wire(v: Any) -> Any:
    v = mkval(v)
    if isinstance(v, M):
        return v.model_dump()
    if isinstance(v, (D, DS)):
        return dataclasses.asdict(v)      # "dataclasses in their dict form": the fields, nothing else
    if isinstance(v, list) and v and isinstance(v[0], (M, D, DS)):
        return [wire(v[0])] + v[1:]
    if isinstance(v, dict) and isinstance(v.get("owner"), (M, D, DS)):
        return dict(v, owner=wire(v["owner"]))
    return v


def strict_eq(a: Any, b: Any) -> bool:
    if type(a) is not type(b):
        return False
    if isinstance(a, list):
        return len(a) == len(b) and all(strict_eq(x, y) for x, y in zip(a, b))
    if isinstance(a, dict):
        return a.keys() == b.keys() and all(strict_eq(a[k], b[k]) for k in a)
    if isinstance(a, float) and a != a:
        return b != b
    return a == b


def convert(ann: str, sent: Any, validate: bool) -> Any:
    if not validate or ann in ("none", "Any") or sent is None:
        return sent
    try:
        return pydantic.TypeAdapter(ANN_OBJ[ann]).validate_python(sent)
    except (ValueError, RuntimeError):
        return sent


INTERNAL_NAMES = ["target", "args", "kwargs", "message", "func", "broker", "loop", "timeout", "result", "labels", "task_id", "context", "exc", "cls"]


class QB(AsyncBroker):
    def __init__(self) -> None:
        super().__init__()
        self.q: List[Any] = []

    async def kick(self, m: Any) -> None:
        self.q.append(m)

    async def listen(self):  # type: ignore[override]
        yield b""


def run_case(c: Dict[str, Any]) -> Outcome:
    out = Outcome()
    out.clauses_checked = ["C08.a", "C08.b", "C08.c"]
    params = [dict(p) for p in c["params"]]
    validate = c["validate"]
    pos = [p for p in params if not p["kwonly"]]
    kwo = [p for p in params if p["kwonly"]]
    seen_def = False
    for p in pos:   # python syntax: no non-default parameter after a default one
        if p["has_default"] or p["dep"]:
            seen_def = True
        elif seen_def:
            p["has_default"] = True
    names: Dict[int, str] = {}
    plist = []
    for k, p in enumerate(pos + kwo):
        nm = f"p{k}" if c.get("naming", "p") == "p" else INTERNAL_NAMES[k % len(INTERNAL_NAMES)]
        names[id(p)] = nm
        a = ANN[p["ann"]]
        if p["dep"] and p.get("dep_passed"):
            # a parameter with a dependency default for which the caller supplies an explicit value by keyword
            frag = f"{nm} = TaskiqDepends(_dep_value)"
        elif p["dep"]:
            frag = f"{nm}: Context = TaskiqDepends()"
        else:
            frag = nm + (f": {a}" if a else "") + (" = 'DEFAULT'" if p["has_default"] else "")
        plist.append((p, frag))
    sig = ", ".join(f for p, f in plist if not p["kwonly"])
    if kwo:
        sig += (", " if sig else "") + "*, " + ", ".join(f for p, f in plist if p["kwonly"])
    got: Dict[str, Any] = {}
    ns = {"typing": typing, "Plain": Plain, "M": M, "D": D, "MA": MA, "MB": MB, "_dep_value": _dep_value, "Context": Context, "TaskiqDepends": TaskiqDepends, "GOT": got, "__name__": __name__}
    allnames = [names[id(p)] for p, _ in plist]
    body = "    GOT.update(dict(" + ", ".join(f"{n}={n}" for n in allnames) + "))\n"
    exec(("async def" if c["is_async"] else "def") + f" task({sig}):\n" + body, ns)
    if c.get("wrapped"):
        # the task function is registered behind a transparent functools.wraps decorator (tracing, timing): same signature, same hints
        import functools

        inner = ns["task"]
        if c["is_async"]:
            @functools.wraps(inner)
            async def traced(*a: Any, **k: Any) -> Any:
                return await inner(*a, **k)
        else:
            @functools.wraps(inner)
            def traced(*a: Any, **k: Any) -> Any:
                return inner(*a, **k)
        ns["task"] = traced
    if c.get("shadow"):
        shadow_sig = ", ".join(f"{n}: str = ''" for n in reversed(allnames))
        exec(f"def shadow_task({shadow_sig}):\n    GOT['__shadow_ran__'] = True\n", ns)
    args: List[Any] = []
    kwargs: Dict[str, Any] = {}
    positional_open = True
    passed: Dict[str, str] = {}
    for p in pos:
        nm = names[id(p)]
        if p["dep"]:
            positional_open = False
            if p.get("dep_passed"):
                kwargs[nm] = mkval(p["val"])
                passed[nm] = "kw"
            continue
        if p["has_default"] and p["omit"]:
            positional_open = False
            continue
        if positional_open and not p["as_kw"]:
            args.append(mkval(p["val"]))
            passed[nm] = "pos"
        else:
            positional_open = False
            kwargs[nm] = mkval(p["val"])
            passed[nm] = "kw"
    for p in kwo:
        nm = names[id(p)]
        if p["dep"] and p.get("dep_passed"):
            kwargs[nm] = mkval(p["val"])
            passed[nm] = "kw"
            continue
        if p["dep"] or (p["has_default"] and p["omit"]):
            continue
        kwargs[nm] = mkval(p["val"])
        passed[nm] = "kw"
    # every parameter without default must be passed
    for p in pos + kwo:
        nm = names[id(p)]
        if nm not in passed and not p["dep"] and not p["has_default"]:
            kwargs[nm] = mkval(p["val"])
            passed[nm] = "kw"

    async def go() -> Any:
        b = QB()
        b.result_backend = InmemoryResultBackend()
        if c["codec"] == "pickle":
            b.serializer = PickleSerializer()
        if c["codec"] == "jsonfmt":
            b.formatter = JSONFormatter()
        r_early = None
        if c.get("late_register") and not c.get("shadow"):
            # the receiver exists before the task is registered (what InMemoryBroker does, and late / dynamic registration on a worker)
            r_early = Receiver(b, executor=Inline(), validate_params=validate, max_async_tasks=5, run_startup=False)
        b.register_task(ns["task"], task_name="t")
        if c.get("shadow"):
            # a shared task registered under the SAME name with other annotations: the broker's own task wins
            # (find_task / get_all_tasks), for execution and therefore for argument parsing as well
            from taskiq.brokers.shared_broker import AsyncSharedBroker

            AsyncBroker.global_task_registry.pop("t", None)
            AsyncSharedBroker().register_task(ns["shadow_task"], task_name="t")
        r = r_early or Receiver(b, executor=Inline(), validate_params=validate, max_async_tasks=5, run_startup=False)
        # (optionally the delivery is a RETRY of an earlier failed one: the retry middleware's `_retries` label is on it - conversion is due all the same)
        k = AsyncKicker("t", b, {"lbl": 1, "s": "x", **({"_retries": 2} if c.get("retried") else {})}).with_task_id("T")
        m = k._prepare_message(*args, **kwargs)
        wire = b.formatter.dumps(m).message
        first = b.formatter.loads(wire)
        for v in list(first.args) + list(first.kwargs.values()):
            # what a task function may do to the list / dict it received (an earlier delivery of the same bytes was processed already)
            if isinstance(v, list):
                v.append("changed-by-first-recipient")
            elif isinstance(v, dict):
                v["changed-by-first-recipient"] = 1
        back = b.formatter.loads(wire)          # decoding the same bytes again still yields the message that was sent
        await k.kiq(*args, **kwargs)
        try:
            await r.callback(b.q.pop(0).message)
        except Exception as exc:  # noqa: BLE001 - processing a delivery is not supposed to raise
            escaped.append(f"{type(exc).__name__}: {short(exc, 160)}")
        res = await b.result_backend.get_result("T") if await b.result_backend.is_result_ready("T") else None
        return m, back, res

    escaped: List[str] = []
    try:
        m, back, res = asyncio.run(go())
    finally:
        AsyncBroker.global_task_registry.pop("t", None)
    if escaped:
        out.add("C08.a", f"def task({sig}) called with args={short(args, 150)} kwargs={short(kwargs, 150)}: processing the delivery raised {escaped[0]}; the function was not invoked")
        return out
    if got.get("__shadow_ran__"):
        out.add("C08.a", "the same-named shared task was executed instead of the broker's own task")
    def _dict_form(v: Any) -> Any:
        if isinstance(v, M):
            return v.model_dump()
        if isinstance(v, (D, DS)):
            return dataclasses.asdict(v)
        if isinstance(v, list):
            return [_dict_form(x) for x in v]
        if isinstance(v, dict):
            return {k_: _dict_form(x) for k_, x in v.items()}
        return v

    # (the kicker turns top-level models / dataclasses into their dict form itself; those nested in a list / dict get theirs when the
    # message is encoded - the decoded message is compared with that form)
    m = m.model_copy(update={"args": _dict_form(list(m.args)), "kwargs": _dict_form(dict(m.kwargs))})
    if back != m:
        out.add("C08.c", f"formatter round trip changed the message ({c['codec']}): {short(back, 300)} != {short(m, 300)}")
    if res is None or res.is_err:
        out.add("C08.a", f"def task({sig}) called with args={short(args, 150)} kwargs={short(kwargs, 150)} failed: {short(getattr(res, 'error', None), 200)}")
        return out
    observable = False
    anns_in_sig = {p["ann"] for p in pos + kwo if not p["dep"]}
    for p in pos + kwo:
        nm = names[id(p)]
        if p["dep"] and p.get("dep_passed"):
            sent = wire(p["val"])
            if not strict_eq(got.get(nm), sent):
                out.add("C08.a", f"def task({sig}) called with kwargs={short(kwargs, 150)}: parameter {nm} has a dependency default but the caller passed "
                                 f"{short(sent, 80)} for it; the function received {short(got.get(nm), 80)}")
            continue
        if p["dep"]:
            if not isinstance(got.get(nm), Context):
                out.add("C08.b", f"dependency parameter {nm} received {short(got.get(nm), 80)} instead of a Context; def task({sig})")
            continue
        if nm not in passed:
            if got.get(nm) != "DEFAULT":
                out.add("C08.b", f"omitted parameter {nm} received {short(got.get(nm), 80)} instead of its default; def task({sig}) args={short(args, 120)} kwargs={short(kwargs, 120)}")
            continue
        sent = wire(p["val"])
        exp = convert(p["ann"], sent, validate)
        g = got.get(nm)
        if not strict_eq(g, exp):
            out.add("C08.a", f"def task({sig}) called with args={short(args, 150)} kwargs={short(kwargs, 150)} (validate={validate}, {c['codec']}): "
                             f"parameter {nm} ({p['ann']}, passed by {passed[nm]}) received {short(g, 100)} ({type(g).__name__}), expected {short(exp, 100)} ({type(exp).__name__})")
        if validate and not observable:
            for other in anns_in_sig:
                if other != p["ann"] and not strict_eq(convert(other, sent, True), exp):
                    observable = True
                    break
    out.nontrivial = observable
    unann_first = any(pos[i]["ann"] == "none" and not pos[i]["dep"] and any(q["ann"] not in ("none", "Any") for q in pos[i + 1:]) for i in range(len(pos)))
    out.classes = [c["codec"], "validate" if validate else "no_validate"] + [cl for cl, f in (
        ("unannotated_before_annotated", unann_first), ("all_positional", len(args) == len([p for p in pos + kwo if not p["dep"]])),
        ("has_dependency_param", any(p["dep"] for p in params)), ("has_kwonly", bool(kwo)), ("library_internal_param_names", c.get("naming") == "internal"), ("task_registered_after_receiver", bool(c.get("late_register"))), ("omitted_default", any(names[id(p)] not in passed and not p["dep"] for p in pos + kwo)),
        ("model_or_dataclass_value", any(isinstance(mkval(p["val"]), (M, D)) for p in params)), ("observable_misbinding", observable), ("same_named_shared_task", bool(c.get("shadow")))) if f]
    out.trace = {"signature": f"def task({sig})", "args": short(args, 200), "kwargs": short(kwargs, 200)}
    return out


SELFTEST_CASES = [{"params": [{"ann": "none", "kwonly": False, "has_default": False, "dep": False, "val": "7", "omit": False, "as_kw": False},
                              {"ann": "int", "kwonly": False, "has_default": False, "dep": False, "val": "5", "omit": False, "as_kw": False}],
                   "validate": True, "codec": "json", "is_async": True}]



# ---------------------------------------------------------------- CLI wiring: from worker flags to the receiver
#
# --no-parse switches argument parsing off, default on.  Flags are parsed with the real WorkerArgs.from_cli and the real start_listen() builds the receiver
# (a recording subclass whose listen() returns at once).

from vt.harness import cliwire as _cliwire

_parts_core = parts
_run_core = run_case


def parts(tier: str) -> List[Part]:  # type: ignore[no-redef]
    ps = _parts_core(tier)
    ps.append(Part("cli_wiring", "given", shards=1, examples=1500 if tier == "thorough" else 150,
                   strategy=lambda: _cliwire.FLAGS.map(lambda f: {"flags": f}), soft_deadline_s=300))
    return ps


def run_case(case: Dict[str, Any]) -> Outcome:  # type: ignore[no-redef]
    if "flags" not in case:
        return _run_core(case)
    out = Outcome()
    out.clauses_checked = ["C08.a"]
    _cliwire.check(case["flags"], ['validate_params'], "C08.a", out)
    out.nontrivial = any(case["flags"].get(k) not in (None, False) for k in case["flags"])
    out.classes = ["cli_wiring"]
    return out
