"""C05 - graceful shutdown drains accepted work and terminates."""
from __future__ import annotations

from typing import Any, Dict, List, Optional

from hypothesis import strategies as st

from vt.core.engine import Outcome, Part, Violation
from vt.harness import worker as wh
from vt.props import common as cm

PID = "C05"
INF_T = 55.0
HORIZON = 60.0
RULE = (
    "[plus a small 'cli_wiring' part: generated `taskiq worker` flag sets parsed by the real WorkerArgs.from_cli and turned into a receiver by the real start_listen(); --max-tasks-per-child / --wait-tasks-timeout reach the receiver unchanged] "
    "Hypothesis-generated shutdown scenarios: stop instant anywhere on the 0.05 s grid / around the 0.3 s poll grid "
    "(or no stop when max_tasks_to_execute=N decides), A in 1..3, P in 0..2, N in None|1..4, wait_tasks_timeout in "
    "None|0|0.5|2|5, 0-7 ackable messages with durations 0/0.05/0.3/1/4 s or never-ending (longer than the 60 s virtual "
    "horizon); a quarter of the cases with a timeout come from a 'staggered drain' family (1-3 accepted tasks finishing one after the other during the drain, spaced by 0.7*W, plus one running past the timeout, enough free slots). Oracle (s = stop instant or instant of the N-th take, D = instant all accepted messages finished, "
    "R = return of listen(), T0 = max(s, start of last accepted message)): (a) <=1 take after a stop, none after the "
    "N-th; (b) W=None => every accepted message has exit and ack before R; (c) R >= min(D, s+W); "
    "(d) R <= max(T0, min(D, T0+W)) + 1.0 s ('never returns' = horizon overrun / loop deadlock); (e) takes <= N and "
    "== N when N messages are offered. Non-trivial: a task is running or a message queued at the stop, or N reached "
    "with backlog, or W elapses before D."
)
ASSUMPTIONS = [
    "virtual-time loop; 'never-ending' = longer than the 60 s virtual horizon",
    "1.0 s slack in (d) covers the receiver's 0.3 s polls",
    "open known finding C05-saturated-wait-timeout is excluded by signature (W set and all A slots busy at T0) and counted",
]


def scenario(big: bool = False) -> Any:
    def fin(d: Dict[str, Any]) -> Dict[str, Any]:
        d["msgs"] = cm.sort_msgs(d["msgs"])
        for m in d["msgs"]:
            if m["kind"] == "bad":
                m["ack"] = None          # plain bytes from the broker, not an ackable wrapper
                m["dur"] = 0.0
            if m["dur"] == "never":
                m["dur"] = 0.0
                m["out"] = "never"
        cs = d.pop("clock_step")
        if cs:
            for m in d["msgs"]:
                if m["kind"] == "async" and m["dur"] and m["out"] != "never":
                    m["clock_step"] = cs         # the host's wall clock is stepped while this task runs
                    break
        if d.pop("park"):
            for m in d["msgs"]:
                if m["kind"] == "async" and m["dur"] and m["out"] != "never":
                    m["parked"] = True        # waits on a future only the task itself references; see harness
                    break
        if not d.pop("has_stop") and d["N"] is not None:
            d["stop"] = None
        stag = d.pop("staggered")
        if stag["on"] and d["W"]:
            # family: several accepted tasks finish one after the other DURING the drain (spaced by less than W) while a
            # longer one keeps running past the timeout; enough slots so the worker is not saturated
            W = d["W"]
            k = stag["k"]
            d["msgs"] = [{"kind": "async", "at": 0.0, "dur": cm.r9(0.7 * W * (j + 1)), "out": "ret", "ack": "sync", "timeout": None} for j in range(k)]
            d["msgs"].append({"kind": "async", "at": 0.0, "dur": 0.0 if stag["never"] else cm.r9(0.7 * W * (k + 4)), "out": "never" if stag["never"] else "ret",
                              "ack": "sync", "timeout": None})
            d["A"] = k + 2
            d["N"] = None
            d["stop"] = stag["stop"]
        d.update({"ends": False, "horizon": HORIZON, "drain": 0.0})
        if d["ack_type"] != "when_saved":
            # an acknowledgement that fails BEFORE the function ran aborts the message's processing - what "completion" means then is not
            # this property's subject; early acknowledge types are generated with acknowledgements that succeed (fast or slow)
            for m in d["msgs"]:
                if str(m.get("ack")) in ("sync_fail", "async_fail", "cancelled_future"):
                    m["ack"] = "slow" if m["ack"] == "async_fail" else "sync"
        return d

    # a few payloads the worker skips (malformed bytes delivered as plain bytes, incl. short ones such as b"-1" / b"")
    msg = cm.message(kinds=("async", "async", "async", "async", "async", "bad"), outs=("ret", "ret", "ValueError", "NoResult"), acks=("sync", "sync", "sync", "async", "async", "future", "deferred", "sync_fail", "async_fail", "cancelled_future", "slow"),
                     durs=(0.0, 0.05, 0.3, 1.0, 4.0, "never"), at=cm.times(60), cleanups=(0, 0, 0, 0.2), timeouts=(None, None, None, 0.3))
    return st.fixed_dictionaries({
        "A": st.integers(1, 5 if big else 3), "P": st.integers(0, 4 if big else 2),
        "N": st.sampled_from([None, None, 1, 2, 3, 4] + ([6, 9] if big else [])),
        "W": st.sampled_from([None, None, 0, 0.5, 2.0, 5.0]),
        "msgs": st.lists(msg, min_size=0, max_size=12 if big else 7),
        "stop": cm.times(60), "has_stop": st.booleans(),
        "park": st.sampled_from([False, False, True]),
        "clock_step": st.sampled_from([0, 0, 0, -30.0, -0.5, 3600.0]),
        "neighbour": st.sampled_from([False, False, False, True]),
        "ack_type": st.sampled_from(["when_saved", "when_saved", "when_executed", "when_received"]),       # a second, busy worker in the same process
        # what the broker's listen() does when its pending fetch gets cancelled at the stop: nothing, a clean-up round trip of 3 s / 20 s, or a failure
        "cancel_cleanup": st.sampled_from([None, None, None, 3.0, 20.0, "raise"]),
        "staggered": st.fixed_dictionaries({"on": st.sampled_from([False, False, False, True]), "k": st.integers(1, 3),
                                            "never": st.booleans(), "stop": st.sampled_from([0.05, 0.3, 0.35])}),
    }).map(fin)


def parts(tier: str) -> List[Part]:
    if tier == "thorough":
        return [Part("scenarios", "given", shards=16, examples=9000, strategy=lambda: scenario(True), soft_deadline_s=3600)]
    return [Part("scenarios", "given", shards=12, examples=600, strategy=scenario, soft_deadline_s=150)]


def run_case(sc: Dict[str, Any]) -> Outcome:
    out = Outcome()
    specs = sc["msgs"]
    A, W, N = sc["A"], sc["W"], sc.get("N")
    res = wh.run_worker(sc)
    tr = res["trace"]
    out.trace = wh.brief_trace(tr, 50)
    out.clauses_checked = ["C05.a", "C05.c", "C05.d"] + (["C05.b"] if W is None else []) + (["C05.e"] if N else [])
    if res["listen_exc"]:
        out.add("C05.b", "listen() raised " + res["listen_exc"])
    takes = [(n, e) for n, e in enumerate(tr) if e[1] == "take"]
    istop = next((n for n, e in enumerate(tr) if e[1] == "stop"), None)
    R = next((e[0] for e in tr if e[1] == "return"), None)
    iret = next((n for n, e in enumerate(tr) if e[1] == "return"), None)
    # shutdown request instant
    s: Optional[float] = None
    s_kind = None
    if istop is not None:
        s, s_kind = tr[istop][0], "stop"
    if N and len(takes) >= N:
        tN = takes[N - 1][1][0]
        if s is None or takes[N - 1][0] < istop:
            s, s_kind = tN, "N"
    taken = [e[2] for n, e in takes if wh.is_good(specs[e[2]])]      # skipped payloads are no accepted work
    enter = {e[2]: e[0] for e in tr if e[1] == "enter"}
    # a message is finished when it has been acknowledged AND everything else about it is over (under when_received / when_executed the
    # acknowledgement comes before the end of the processing); a slow acknowledgement is finished when its coroutine is
    entered = {e[2] for e in tr if e[1] == "enter"}
    # (an acknowledgement that FAILS before the function started ends that message's processing on the spot)
    acked = {e[2] for e in tr if e[1] == "ack"} & ({e[2] for e in tr if e[1] == "exit"} |
                                                  {i_ for i_, sp_ in enumerate(specs) if i_ not in entered and str(sp_.get("ack")) in ("sync_fail", "async_fail", "cancelled_future")})
    fin = {}
    for e in tr:
        if e[2] in acked and e[1] in ("ack", "ack_done", "exit", "save_end", "save_failed"):
            fin[e[2]] = max(fin.get(e[2], 0.0), e[0])
    for i_, sp_ in enumerate(specs):
        if sp_.get("ack") == "slow" and i_ in fin and not any(e[1] == "ack_done" and e[2] == i_ for e in tr):
            fin[i_] = float("inf")
    inf = float("inf")
    # (e)
    if N:
        if len(takes) > N:
            out.add("C05.e", f"{len(takes)} messages taken with max_tasks_to_execute={N}")
        if istop is None and len(specs) >= N and len(takes) < N and not any(sp["out"] == "never" for sp in specs):
            out.add("C05.e", f"only {len(takes)} of N={N} offered messages accepted (no stop requested)")
    if s is None:
        # nobody asked for shutdown: listen must still be running
        if R is not None:
            out.add("C05.c", f"listen() returned at {R} although no shutdown was requested")
        out.classes = ["no_shutdown"]
        return out
    # (a)
    if s_kind == "stop":
        after = sum(1 for n, e in takes if n > istop)
        if after > 1:
            out.add("C05.a", f"{after} messages taken after the stop request at {s}")
    D = max([fin.get(i, inf) for i in taken], default=0.0)
    Wv = inf if W is None else W
    if R is not None:
        if R < min(D, s + Wv) - 1e-6:
            out.add("C05.c", f"listen() returned at {R} while accepted work was still running (all finished at {D}, "
                             f"shutdown requested at {s}, wait_tasks_timeout={W})")
        if W is None:
            for i in taken:
                evs = [(n, e[1]) for n, e in enumerate(tr) if e[2] == i]
                ks = [k for n, k in evs if n < iret]
                if "exit" not in ks or "ack" not in ks or (specs[i].get("ack") == "slow" and "ack_done" not in ks):
                    out.add("C05.b", f"accepted message {i} not completed (events before return: {ks})")
    T0 = max([s] + [enter[i] for i in taken if i in enter])
    bound = max(T0, min(D, T0 + Wv)) + 1.0
    late = (R is None and bound < INF_T) or (R is not None and R > bound)
    running = sum(1 for i in taken if i in enter and enter[i] <= T0 and fin.get(i, inf) > T0)
    # execution slots in use when the last message was taken: a message holds its slot from the start of its callback (under when_received:
    # from its acknowledgement, which may take a while) - not only from the start of its task function
    t_last = max([s] + [e[0] for n_, e in takes])
    began = {}
    for e in tr:
        if e[1] in ("ack", "enter") and e[2] not in began:
            began[e[2]] = e[0]
    running = max(running, sum(1 for i in taken if i in began and began[i] <= t_last and fin.get(i, inf) > t_last))
    not_started = sum(1 for i in taken if i not in enter)
    out.info = {"W": W, "running_at_T0": running, "A": A, "T0": T0, "bound": bound, "R": R, "D": None if D == inf else D}
    if late:
        out.add("C05.d", f"listen() returned at {R} (None = never within the horizon); expected by {bound:.3f}: shutdown "
                         f"requested at {s} ({s_kind}), last accepted message started at T0={T0}, all finished at D={D}, "
                         f"wait_tasks_timeout={W}, running at T0={running}, A={A}")
    stop_while_running = any(i in enter and enter[i] <= s < fin.get(i, inf) for i in taken)
    queued = any(n < (istop if s_kind == "stop" else takes[N - 1][0] + 1) and (e[2] not in enter or enter[e[2]] > s) for n, e in takes)
    w_elapses = W is not None and s + W < D
    out.nontrivial = bool(stop_while_running or queued or w_elapses or (s_kind == "N" and len(specs) > N))
    out.classes = [f"s={s_kind}"] + [c for c, f in (("running_at_stop", stop_while_running), ("queued_at_stop", queued),
                                                   ("W_elapses_before_D", w_elapses), ("never_ending_task", any(sp["out"] == "never" for sp in specs)),
                                                   ("saturated_at_T0", running >= A), ("W_set", W is not None)) if f]
    return out


def known(case: Dict[str, Any], v: Violation, out: Outcome) -> Optional[str]:
    if v.clause == "C05.d" and out.info.get("W") is not None and out.info.get("running_at_T0", 0) >= out.info.get("A", 99):
        return "C05-saturated-wait-timeout"
    return None


SELFTEST_CASES = []



# ---------------------------------------------------------------- CLI wiring: from worker flags to the receiver
#
# --max-tasks-per-child / --wait-tasks-timeout reach the receiver unchanged.  Flags are parsed with the real WorkerArgs.from_cli and the real start_listen() builds the receiver
# (a recording subclass whose listen() returns at once).

from vt.harness import cliwire as _cliwire

_parts_core = parts
_run_core = run_case


def parts(tier: str) -> List[Part]:  # type: ignore[no-redef]
    ps = _parts_core(tier)
    ps.append(Part("cli_wiring", "given", shards=1, examples=1500 if tier == "thorough" else 150,
                   strategy=lambda: _cliwire.FLAGS.map(lambda f: {"flags": f}), soft_deadline_s=300))
    return ps


def run_case(case: Dict[str, Any]) -> Outcome:  # type: ignore[no-redef]
    if "flags" not in case:
        return _run_core(case)
    out = Outcome()
    out.clauses_checked = ["C05.e"]
    _cliwire.check(case["flags"], ['max_tasks_to_execute', 'wait_tasks_timeout'], "C05.e", out)
    out.nontrivial = any(case["flags"].get(k) not in (None, False) for k in case["flags"])
    out.classes = ["cli_wiring"]
    return out
