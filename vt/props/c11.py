"""C11 - the retry middleware re-sends a failing task a bounded number of times."""
from __future__ import annotations

import asyncio

import pydantic
from typing import Any, Dict, List

from hypothesis import strategies as st

from taskiq import AsyncBroker, Context, SimpleRetryMiddleware, TaskiqDepends
from taskiq.brokers.inmemory_broker import InmemoryResultBackend
from taskiq.exceptions import NoResultError
from taskiq.formatters.json_formatter import JSONFormatter
from taskiq.kicker import AsyncKicker
from taskiq.receiver import Receiver
from taskiq.result import TaskiqResult
from taskiq.serializers import PickleSerializer

from vt.core.engine import Outcome, Part, short

PID = "C11"
RULE = (
    "Hypothesis-generated per-attempt outcome sequences over {fail, succeed, no-result} (a failing attempt raises ValueError / KeyError / a custom BaseException / one of taskiq's own client errors; length 1-8, padded with "
    "failures; 60% drawn from a 'failing prefix' family so that >=2 executions are common), max_retries 0..6 given as "
    "int label, str label or middleware default, retry_on_error as bool label, str label ('True'/'true'/'TRUE'/'False'/"
    "'false') or the middleware default (on/off), both no_result_on_retry settings, typed user labels, args/kwargs, codec "
    "JSON / pickle / JSONFormatter; the middleware is SimpleRetryMiddleware itself or a trivial subclass that only inherits its hooks. The task is sent with the real AsyncKicker, every delivery goes through the real "
    "formatter bytes and Receiver.callback, re-sends are whatever SimpleRetryMiddleware hands to broker.kick(). "
    "Oracle = reference model written from the statement: executions = position of the first non-fail outcome, capped "
    "at max(1, max_retries) when retry is enabled, else 1; saves: re-sent attempts store nothing iff no_result_on_retry, "
    "the last attempt's outcome is stored unless it is no-result; every attempt has the same task id, args, kwargs and "
    "user labels (value and type) and no label this call never had; in a third of the cases a second call of the same task "
    "(own labels, own outcomes) is handled by the same middleware instance afterwards and must follow its own model. Non-trivial: >=2 executions, or max_retries in {0,1}, or the retry flag given as a "
    "string; distinct = canonical JSON."
    " Optionally the same middleware object was attached to another broker before being added to this one (it serves the broker it was added to last)."
)
ASSUMPTIONS = ["deliveries are driven directly through Receiver.callback (no listen loop: timing is irrelevant to C11)"]


class QB(AsyncBroker):
    def __init__(self) -> None:
        super().__init__()
        self.q: List[Any] = []
        self.kicked: List[Any] = []

    async def kick(self, m: Any) -> None:
        self.q.append(m)
        self.kicked.append(m)

    async def listen(self):  # type: ignore[override]
        yield b""


def cases() -> Any:
    free = st.lists(st.sampled_from(["fail", "fail", "ok", "nores"]), min_size=1, max_size=8)
    prefix = st.tuples(st.integers(1, 7), st.sampled_from(["ok", "ok", "nores", "fail"])).map(lambda t: ["fail"] * t[0] + [t[1]])
    return st.fixed_dictionaries(dict(
        outs=st.one_of(prefix, prefix, prefix, free, free),
        mr=st.one_of(st.none(), st.tuples(st.sampled_from(["int", "str"]), st.integers(0, 6)).map(list)),
        dflt_count=st.integers(0, 6),
        roe=st.sampled_from([None, True, True, True, False, "True", "true", "False", "TRUE", "false"]),
        dflt_label=st.sampled_from([True, True, False]),
        nror=st.booleans(),
        user=st.dictionaries(st.sampled_from(["u1", "u2", "x-trace"]),
                             st.one_of(st.integers(-10**12, 10**12), st.text(max_size=3), st.booleans(), st.floats(allow_nan=False, allow_infinity=False, width=32)),
                             max_size=2),
        codec=st.sampled_from(["json", "json", "pickle", "jsonfmt"]),
        # what a failing attempt raises: ordinary exceptions, a BaseException, and errors of taskiq's own client API
        # (a task waiting for a sub-task, kicking while the broker is down, rejecting) - all of them are failures
        subclass=st.sampled_from([False, False, True]),
        store_prefill=st.sampled_from([None, None, 1, 2, 3]),
        warmup=st.sampled_from([False, False, True]),
        reused_mw=st.sampled_from([False, False, True]),
        positional=st.sampled_from([False, False, True]),
        # the worker's wall clock is set back 5 s during this attempt (1-based; None: steady clock) - NTP step, VM resume
        clock_back=st.sampled_from([None, None, None, 1, 2, 3]),
        fail_kind=st.sampled_from(["ValueError", "ValueError", "KeyError", "MyBase", "CancelledError", "SystemExit", "EmptyBatchError", "TaskiqResultTimeoutError", "SendTaskError", "TaskRejectedError", "ResultGetError", "BadStrError"]),
        # a second call of the same task handled by the same middleware instance (own labels, own outcome sequence)
        second=st.one_of(st.none(), st.none(), st.fixed_dictionaries(dict(
            outs=st.one_of(prefix, free),
            mr=st.one_of(st.none(), st.tuples(st.sampled_from(["int", "str"]), st.integers(0, 6)).map(list)),
            roe=st.sampled_from([None, None, True, False, "true"]),
            user=st.dictionaries(st.sampled_from(["u1", "u3"]), st.one_of(st.integers(-9, 9), st.text(max_size=3)), max_size=2)))),
    ))


def parts(tier: str) -> List[Part]:
    if tier == "thorough":
        return [Part("histories", "given", shards=16, examples=20000, strategy=cases, soft_deadline_s=3000)]
    return [Part("histories", "given", shards=8, examples=800, strategy=cases, soft_deadline_s=120)]


_REQ_IDS = [0]


def _next_req_id() -> str:
    _REQ_IDS[0] += 1
    return f"req-{_REQ_IDS[0]}"


class Req(pydantic.BaseModel):
    """a request object with an idempotency key the caller usually leaves to the default factory."""

    item: str
    request_id: str = pydantic.Field(default_factory=_next_req_id)


class MyBase(BaseException):
    pass


def make_failure(kind: str) -> BaseException:
    import taskiq.exceptions as te

    if kind == "TaskiqResultTimeoutError":
        return te.TaskiqResultTimeoutError(timeout=1.5)
    if kind == "MyBase":
        return MyBase("f")
    if kind == "CancelledError":
        return asyncio.CancelledError()       # what awaiting a cancelled inner future raises; the execution itself is not cancelled
    if kind == "SystemExit":
        return SystemExit(3)
    if kind == "EmptyBatchError":
        from vt.harness.worker import EmptyBatchError

        return EmptyBatchError()      # a falsy exception instance (len() == 0)
    if kind == "BadStrError":
        from vt.harness.worker import BadStrError

        return BadStrError()          # its text form cannot be built (__str__ raises): a failure like any other
    if hasattr(te, kind):
        return getattr(te, kind)()
    return {"ValueError": ValueError, "KeyError": KeyError}[kind]("f")


def model(c: Dict[str, Any]) -> Any:
    roe = c["roe"]
    enabled = roe if isinstance(roe, bool) else (roe.lower() == "true" if isinstance(roe, str) else c["dflt_label"])
    maxr = c["mr"][1] if c["mr"] else c["dflt_count"]
    cap = max(1, maxr) if enabled else 1
    execs = 0
    saves = []
    outs = c["outs"] + ["fail"] * 10
    while True:
        o = outs[execs]
        execs += 1
        if o == "ok":
            saves.append(["ok", execs])
            break
        if o == "nores":
            break
        if enabled and execs < cap:
            if not c["nror"]:
                saves.append(["err", execs])
            continue
        saves.append(["err", execs])
        break
    return execs, saves


def run_case(c: Dict[str, Any]) -> Outcome:
    out = Outcome()
    out.clauses_checked = ["C11.a", "C11.b", "C11.c", "C11.d"]
    # `req` is validated into a model whose un-sent field gets a generated default: every attempt must see the SAME value
    ARGS, KW = [1, "x", [2.5, None]], {"z": {"k": 1}, "req": {"item": "x"}}
    reqs: Dict[str, List[Any]] = {}
    calls = [c]
    if c.get("second"):
        calls.append({**c["second"], "dflt_count": c["dflt_count"], "dflt_label": c["dflt_label"], "nror": c["nror"]})

    import taskiq.receiver.receiver as _rr

    wall = [1.7e9]

    def fake_time() -> float:
        wall[0] += 0.001
        return wall[0]

    async def go() -> Any:
        b = QB()
        saves: List[Any] = []
        runs: Dict[str, int] = {}

        class RB(InmemoryResultBackend):
            async def set_result(self, tid: str, res: Any) -> None:
                saves.append(["err" if res.is_err else "ok", runs.get(tid, 0), tid, res.return_value])
                await super().set_result(tid, res)

        # the bundled in-memory result store, fresh or already FULL (bounded store: older results get evicted, never the new one lost)
        pre = c.get("store_prefill")
        b.result_backend = RB(max_stored_results=pre) if pre else RB()
        for j in range(pre or 0):
            await InmemoryResultBackend.set_result(b.result_backend, f"old{j}", TaskiqResult(is_err=False, return_value=j, execution_time=0.0))
        if c["codec"] == "pickle":
            b.serializer = PickleSerializer()
        if c["codec"] == "jsonfmt":
            b.formatter = JSONFormatter()
        mw_cls: Any = SimpleRetryMiddleware
        if c.get("subclass"):
            # a project-wide subclass that only inherits the hooks (e.g. to change constructor defaults)
            mw_cls = type("AppRetryMiddleware", (SimpleRetryMiddleware,), {"__doc__": "inherits on_error"})
        if c.get("positional"):
            the_mw = mw_cls(c["dflt_count"], c["dflt_label"], c["nror"])       # documented parameter order, given positionally
        else:
            the_mw = mw_cls(default_retry_count=c["dflt_count"], default_retry_label=c["dflt_label"], no_result_on_retry=c["nror"])
        if c.get("reused_mw"):
            # the same middleware object was attached to another broker before (a module-level instance shared by a test broker
            # and the real one, a broker rebuilt after reconfiguration): it serves the broker it was added to last
            QB().add_middlewares(the_mw)
        if not c.get("warmup"):
            b.add_middlewares(the_mw)
        seen: List[Any] = []

        def fresh_token() -> str:
            tokens.append(len(tokens))
            return f"tok-{len(tokens)}"

        tokens: List[int] = []

        async def t(a: Any, b_: Any = None, c_: Any = None, z: Any = None, ctx: Context = TaskiqDepends(),
                    tok: str = TaskiqDepends(fresh_token), req: Req = None) -> Any:  # type: ignore[assignment]
            reqs.setdefault(ctx.message.task_id, []).append(req.model_dump() if isinstance(req, Req) else repr(req))
            if tok != f"tok-{len(tokens)}":
                stale.append(tok)
            tid = ctx.message.task_id
            outs = calls[int(tid[1:])]["outs"] + ["fail"] * 10
            n = runs.get(tid, 0)
            o = outs[n] if n < len(outs) else "ok"
            runs[tid] = n + 1
            if c.get("clock_back") == n + 1:
                wall[0] -= 5.0
            seen.append((tid, [a, b_, c_], {"z": z}))
            if o == "fail":
                raise make_failure(c.get("fail_kind", "ValueError"))
            if o == "nores":
                raise NoResultError()
            return runs[tid]

        t.__module__ = __name__
        b.register_task(t, task_name="t")
        r = Receiver(b, max_async_tasks=5, run_startup=False)
        if c.get("warmup"):
            # the worker has already processed a failing message when the retry middleware is installed (configuration in a
            # start-up hook, a broker assembled step by step): the middleware list is what it is when a failure happens
            async def warm() -> None:
                raise ValueError("warm-up failure")

            warm.__module__ = __name__
            b.register_task(warm, task_name="warm")
            await AsyncKicker("warm", b, {}).with_task_id("W0").kiq()
            try:
                await r.callback(b.q.pop(0).message)
            except BaseException:  # noqa: BLE001
                pass
            b.add_middlewares(the_mw)
        for n, cl in enumerate(calls):
            labels = dict(cl["user"])
            if cl["roe"] is not None:
                labels["retry_on_error"] = cl["roe"]
            if cl["mr"]:
                labels["max_retries"] = cl["mr"][1] if cl["mr"][0] == "int" else str(cl["mr"][1])
            await AsyncKicker("t", b, labels).with_task_id(f"T{n}").kiq(*ARGS, **KW)
            # the first call is processed to the end before the second one is sent
            guard = 0
            while b.q and guard < 40:
                guard += 1
                m = b.q.pop(0)
                tm = b.formatter.loads(m.message)
                tm.parse_labels()
                msgs.append((m, tm))
                try:
                    await r.callback(m.message)
                except BaseException as exc:  # noqa: BLE001 - the delivery callback is not supposed to raise
                    cb_errors.append(f"{type(exc).__name__}: {exc}")
            guards.append(guard)
            # read back right after this call's last delivery (a later call may legitimately evict it from a bounded store)
            tid_ = f"T{n}"
            stored_final[tid_] = (await b.result_backend.get_result(tid_)) if await b.result_backend.is_result_ready(tid_) else None
        return runs, saves, seen

    msgs: List[Any] = []
    guards: List[int] = []
    cb_errors: List[str] = []
    stored_final: Dict[str, Any] = {}
    stale: List[str] = []
    _orig_time = getattr(_rr, "time", None)
    if _orig_time is not None and c.get("clock_back"):
        _rr.time = fake_time  # type: ignore[attr-defined]
    try:
        runs, saves, seen = asyncio.run(go())
    finally:
        if _orig_time is not None:
            _rr.time = _orig_time  # type: ignore[attr-defined]
    nontriv = False
    classes: List[str] = [c["codec"]]
    if stale:
        out.add("C11.b", f"an attempt received the injected value {stale[0]!r} of an earlier attempt instead of a freshly resolved one")
    if cb_errors:
        out.add("C11.a", f"processing a delivery raised {cb_errors[0]} (the re-send of a failed attempt was lost)")
    for n, cl in enumerate(calls):
        tid = f"T{n}"
        execs = runs.get(tid, 0)
        me, ms = model(cl)
        my_saves = [s for s in saves if s[2] == tid]
        my_msgs = [(m, tm) for m, tm in msgs if tm.task_id == tid]
        who = f"call {n}: " if len(calls) > 1 else ""
        if guards[n] >= 40:
            out.add("C11.a", f"{who}the task was still being re-sent after 40 deliveries (unbounded retry)")
        if execs != me:
            out.add("C11.a" if execs > me else "C11.d" if me == 1 else "C11.a",
                    f"{who}{execs} executions, reference model {me} (outcomes {cl['outs'][:8]}, max_retries={cl['mr']}, default {cl['dflt_count']}, "
                    f"retry_on_error={cl['roe']!r}, default {cl['dflt_label']})"
                    + (f"; the other call had max_retries={calls[1 - n]['mr']}, retry_on_error={calls[1 - n]['roe']!r}" if len(calls) > 1 else ""))
        elif [[s[0], s[1]] for s in my_saves] != ms:
            out.add("C11.c", f"{who}saves (kind, after execution #) {[[s[0], s[1]] for s in my_saves]} != reference model {ms} (no_result_on_retry={cl['nror']})")
        if my_saves and execs == me:
            fin_ = stored_final.get(tid)
            last = my_saves[-1]
            if fin_ is None or ("err" if fin_.is_err else "ok") != last[0] or (not fin_.is_err and fin_.return_value != last[3]):
                out.add("C11.c", f"{who}the result readable under the task id after the last attempt is "
                                 f"{None if fin_ is None else ('err' if fin_.is_err else 'ok', short(fin_.return_value, 40))}, the final attempt (execution #{last[1]}) stored "
                                 f"{(last[0], short(last[3], 40))} (result store pre-filled with {c.get('store_prefill') or 0} results)")
        if len(my_msgs) != execs:
            out.add("C11.d", f"{who}{len(my_msgs)} deliveries but {execs} executions")
        mine_req = reqs.get(tid, [])
        if any(r != mine_req[0] for r in mine_req[1:]) or (mine_req and (not isinstance(mine_req[0], dict) or mine_req[0].get("item") != "x")):
            out.add("C11.b", f"{who}the model-typed argument sent as {{'item': 'x'}} was received as {short(mine_req, 200)} by the successive attempts (must be one and the same value)")
        for tid2, a, k in seen:
            if tid2 == tid and (a != [1, "x", [2.5, None]] or k != {"z": {"k": 1}}):
                out.add("C11.b", f"{who}attempt received args {short((a, k), 120)}")
                break
        for k_, (m, tm) in enumerate(my_msgs):
            wire_kw = dict(tm.kwargs)
            wire_req = wire_kw.pop("req", None)
            if list(tm.args) != ARGS or wire_kw != {"z": {"k": 1}} or not isinstance(wire_req, dict) or wire_req.get("item") != "x":
                out.add("C11.b", f"{who}attempt {k_ + 1} was sent with args {short((tm.args, tm.kwargs), 120)}, the call had {short((ARGS, KW), 80)}")
                break
            for key, val in cl["user"].items():
                got = tm.labels.get(key, "<missing>")
                if type(got) is not type(val) or got != val:
                    out.add("C11.b", f"{who}attempt {k_ + 1}: user label {key!r} = {got!r} ({type(got).__name__}), sent {val!r} ({type(val).__name__})")
                    break
            foreign = set(tm.labels) - set(cl["user"]) - {"retry_on_error", "max_retries", "_retries"}
            if cl["roe"] is None:
                foreign |= {"retry_on_error"} & set(tm.labels)
            if not cl["mr"]:
                foreign |= {"max_retries"} & set(tm.labels)
            if foreign:
                out.add("C11.b", f"{who}attempt {k_ + 1} carries labels {sorted(foreign)} that this call never had")
                break
        nontriv = nontriv or bool(me >= 2 or (cl["mr"] and cl["mr"][1] in (0, 1)) or isinstance(cl["roe"], str))
        classes += [f"execs={min(me, 4)}{'+' if me > 4 else ''}"] + [x for x, f in (
            ("retry_flag_str", isinstance(cl["roe"], str)), ("max_retries_str", bool(cl["mr"] and cl["mr"][0] == "str")),
            ("max_retries_0_or_1", bool(cl["mr"] and cl["mr"][1] in (0, 1)))) if f]
    if any(tm.task_id not in ("T0", "T1") for m, tm in msgs) or any(s[2] not in ("T0", "T1", "W0") for s in saves):
        out.add("C11.b", "task id changed between attempts")
    out.nontrivial = nontriv
    out.classes = sorted(set(classes)) + (["two_calls"] if len(calls) > 1 else [])
    out.trace = {"executions": runs, "saves": [[s[0], s[1], s[2]] for s in saves], "deliveries": len(msgs)}
    return out


SELFTEST_CASES = [dict(outs=["fail", "fail", "ok"], mr=["str", 3], dflt_count=3, roe="true", dflt_label=False, nror=True, user={"u1": 5}, codec="json")]


# ---------------------------------------------------------------- retries through the bundled InMemoryBroker
#
# There a re-sent message is executed in the same event loop, concurrently with the tail of the attempt that re-sent it:
# whatever the interleaving, what can be read under the task id at the end is the FINAL attempt's outcome.
# (await_inplace=True is left out: there the re-sent message is executed NESTED inside the failing attempt's on_error hook, so
# with no_result_on_retry=False the outer attempt necessarily stores its result last - a property of that test mode, see DESIGN 5.)


def inmemory_cases() -> Any:
    return st.fixed_dictionaries({
        "inmemory": st.just(True), "outs": st.lists(st.sampled_from(["fail", "fail", "ok"]), min_size=1, max_size=5),
        "maxr": st.integers(1, 5), "nror": st.booleans(), "yielding": st.sampled_from([False, False, True]), "inplace": st.sampled_from([False, False, True]),
        "mat": st.sampled_from([None, None, 1, 2, 3]),         # the broker's max_async_tasks argument
    }).map(lambda d: {**d, "nror": True} if d["inplace"] else d)       # run inside kiq(): only with no_result_on_retry (see the note above)


def run_inmemory(c: Dict[str, Any]) -> Outcome:
    from taskiq import InMemoryBroker

    out = Outcome()
    out.clauses_checked = ["C11.a", "C11.c"]
    outs = c["outs"] + ["fail"] * 10
    runs: List[int] = []
    hung: List[int] = []

    async def go() -> Any:
        b = InMemoryBroker(await_inplace=c["inplace"], **({"max_async_tasks": c["mat"]} if c.get("mat") else {}))
        b.add_middlewares(SimpleRetryMiddleware(default_retry_count=c["maxr"], default_retry_label=True, no_result_on_retry=c["nror"]))

        async def t() -> Any:
            n = len(runs)
            runs.append(n)
            if c["yielding"]:
                await asyncio.sleep(0)
            if outs[n] == "fail":
                raise ValueError(f"attempt {n + 1} failed")
            return f"ok on attempt {n + 1}"

        t.__module__ = __name__
        b.register_task(t, task_name="im.t")
        try:
            await asyncio.wait_for(AsyncKicker("im.t", b, {}).with_task_id("R").kiq(), 10)     # milliseconds of work; 10 s = it hangs
        except asyncio.TimeoutError:
            hung.append(len(runs))
            return None
        for _ in range(30):
            await b.wait_all()
            await asyncio.sleep(0)
        res = (await b.result_backend.get_result("R")) if await b.result_backend.is_result_ready("R") else None
        await b.shutdown()
        return res

    res = asyncio.run(go())
    # reference: executions until success or maxr reached
    want_execs = 0
    last = None
    while True:
        o = outs[want_execs]
        want_execs += 1
        last = o
        if o == "ok" or want_execs >= max(1, c["maxr"]):
            break
    if hung:
        out.add("C11.a", f"kiq() did not return: {hung[0]} of {want_execs} executions happened (outcomes {c['outs']}, max_retries={c['maxr']}, "
                         f"InMemoryBroker(await_inplace={c['inplace']}, max_async_tasks={c.get('mat')}))")
    elif len(runs) != want_execs:
        out.add("C11.a", f"{len(runs)} executions, expected {want_execs} (outcomes {c['outs']}, max_retries={c['maxr']}) through InMemoryBroker")
    elif res is None:
        out.add("C11.c", f"no result readable under the task id after {want_execs} attempts")
    elif last == "ok" and (res.is_err or res.return_value != f"ok on attempt {want_execs}"):
        out.add("C11.c", f"the final attempt (#{want_execs}) succeeded but the stored result is is_err={res.is_err} value={short(res.return_value, 40)} error={short(res.error, 60)} "
                         f"(no_result_on_retry={c['nror']}, task body {'yields' if c['yielding'] else 'never suspends'})")
    elif last == "fail" and (not res.is_err or f"attempt {want_execs} failed" not in str(res.error)):
        out.add("C11.c", f"the final attempt (#{want_execs}) failed but the stored result is is_err={res.is_err} error={short(res.error, 60)}")
    out.nontrivial = want_execs >= 2
    out.classes = ["inmemory_retry", f"execs={min(want_execs, 4)}"] + (["final_ok"] if last == "ok" else ["final_fail"]) + (["await_inplace"] if c["inplace"] else []) + (["small_max_async_tasks"] if c.get("mat") else [])
    return out


_parts_core11, _run_core11 = parts, run_case


def parts(tier: str) -> List[Part]:  # type: ignore[no-redef]
    n = 3000 if tier == "thorough" else 200
    return _parts_core11(tier) + [Part("inmemory_retry", "given", shards=2, examples=n, strategy=inmemory_cases, soft_deadline_s=900 if tier == "thorough" else 100)]


def run_case(c: Dict[str, Any]) -> Outcome:  # type: ignore[no-redef]
    return run_inmemory(c) if c.get("inmemory") else _run_core11(c)
