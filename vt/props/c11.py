"""C11 - the retry middleware re-sends a failing task a bounded number of times."""
from __future__ import annotations

import asyncio
from typing import Any, Dict, List

from hypothesis import strategies as st

from taskiq import AsyncBroker, SimpleRetryMiddleware
from taskiq.brokers.inmemory_broker import InmemoryResultBackend
from taskiq.exceptions import NoResultError
from taskiq.formatters.json_formatter import JSONFormatter
from taskiq.kicker import AsyncKicker
from taskiq.receiver import Receiver
from taskiq.serializers import PickleSerializer

from vt.core.engine import Outcome, Part, short

PID = "C11"
RULE = (
    "Hypothesis-generated per-attempt outcome sequences over {fail, succeed, no-result} (length 1-8, padded with "
    "failures; 60% drawn from a 'failing prefix' family so that >=2 executions are common), max_retries 0..6 given as "
    "int label, str label or middleware default, retry_on_error as bool label, str label ('True'/'true'/'TRUE'/'False'/"
    "'false') or the middleware default (on/off), both no_result_on_retry settings, typed user labels, args/kwargs, codec "
    "JSON / pickle / JSONFormatter. The task is sent with the real AsyncKicker, every delivery goes through the real "
    "formatter bytes and Receiver.callback, re-sends are whatever SimpleRetryMiddleware hands to broker.kick(). "
    "Oracle = reference model written from the statement: executions = position of the first non-fail outcome, capped "
    "at max(1, max_retries) when retry is enabled, else 1; saves: re-sent attempts store nothing iff no_result_on_retry, "
    "the last attempt's outcome is stored unless it is no-result; every attempt has the same task id, args, kwargs and "
    "user labels (value and type). Non-trivial: >=2 executions, or max_retries in {0,1}, or the retry flag given as a "
    "string; distinct = canonical JSON."
)
ASSUMPTIONS = ["deliveries are driven directly through Receiver.callback (no listen loop: timing is irrelevant to C11)"]


class QB(AsyncBroker):
    def __init__(self) -> None:
        super().__init__()
        self.q: List[Any] = []
        self.kicked: List[Any] = []

    async def kick(self, m: Any) -> None:
        self.q.append(m)
        self.kicked.append(m)

    async def listen(self):  # type: ignore[override]
        yield b""


def cases() -> Any:
    free = st.lists(st.sampled_from(["fail", "fail", "ok", "nores"]), min_size=1, max_size=8)
    prefix = st.tuples(st.integers(1, 7), st.sampled_from(["ok", "ok", "nores", "fail"])).map(lambda t: ["fail"] * t[0] + [t[1]])
    return st.fixed_dictionaries(dict(
        outs=st.one_of(prefix, prefix, prefix, free, free),
        mr=st.one_of(st.none(), st.tuples(st.sampled_from(["int", "str"]), st.integers(0, 6)).map(list)),
        dflt_count=st.integers(0, 6),
        roe=st.sampled_from([None, True, True, True, False, "True", "true", "False", "TRUE", "false"]),
        dflt_label=st.sampled_from([True, True, False]),
        nror=st.booleans(),
        user=st.dictionaries(st.sampled_from(["u1", "u2", "x-trace"]),
                             st.one_of(st.integers(-10**12, 10**12), st.text(max_size=3), st.booleans(), st.floats(allow_nan=False, allow_infinity=False, width=32)),
                             max_size=2),
        codec=st.sampled_from(["json", "json", "pickle", "jsonfmt"]),
    ))


def parts(tier: str) -> List[Part]:
    if tier == "thorough":
        return [Part("histories", "given", shards=16, examples=8000, strategy=cases, soft_deadline_s=1500)]
    return [Part("histories", "given", shards=8, examples=800, strategy=cases, soft_deadline_s=120)]


def model(c: Dict[str, Any]) -> Any:
    roe = c["roe"]
    enabled = roe if isinstance(roe, bool) else (roe.lower() == "true" if isinstance(roe, str) else c["dflt_label"])
    maxr = c["mr"][1] if c["mr"] else c["dflt_count"]
    cap = max(1, maxr) if enabled else 1
    execs = 0
    saves = []
    outs = c["outs"] + ["fail"] * 10
    while True:
        o = outs[execs]
        execs += 1
        if o == "ok":
            saves.append(["ok", execs])
            break
        if o == "nores":
            break
        if enabled and execs < cap:
            if not c["nror"]:
                saves.append(["err", execs])
            continue
        saves.append(["err", execs])
        break
    return execs, saves


def run_case(c: Dict[str, Any]) -> Outcome:
    out = Outcome()
    out.clauses_checked = ["C11.a", "C11.b", "C11.c", "C11.d"]
    ARGS, KW = [1, "x", [2.5, None]], {"z": {"k": 1}}

    async def go() -> Any:
        b = QB()
        saves: List[Any] = []
        runs = [0]

        class RB(InmemoryResultBackend):
            async def set_result(self, tid: str, res: Any) -> None:
                saves.append(["err" if res.is_err else "ok", runs[0], tid, res.return_value])
                await super().set_result(tid, res)

        b.result_backend = RB()
        if c["codec"] == "pickle":
            b.serializer = PickleSerializer()
        if c["codec"] == "jsonfmt":
            b.formatter = JSONFormatter()
        b.add_middlewares(SimpleRetryMiddleware(default_retry_count=c["dflt_count"], default_retry_label=c["dflt_label"],
                                                no_result_on_retry=c["nror"]))
        seen: List[Any] = []
        outs = c["outs"] + ["fail"] * 10

        async def t(a: Any, b_: Any = None, c_: Any = None, z: Any = None) -> Any:
            o = outs[runs[0]] if runs[0] < len(outs) else "ok"
            runs[0] += 1
            seen.append(([a, b_, c_], {"z": z}))
            if o == "fail":
                raise ValueError("f")
            if o == "nores":
                raise NoResultError()
            return runs[0]

        t.__module__ = __name__
        b.register_task(t, task_name="t")
        labels = dict(c["user"])
        if c["roe"] is not None:
            labels["retry_on_error"] = c["roe"]
        if c["mr"]:
            labels["max_retries"] = c["mr"][1] if c["mr"][0] == "int" else str(c["mr"][1])
        r = Receiver(b, max_async_tasks=5, run_startup=False)
        await AsyncKicker("t", b, labels).with_task_id("T").kiq(*ARGS, **KW)
        msgs = []
        guard = 0
        while b.q and guard < 40:
            guard += 1
            m = b.q.pop(0)
            tm = b.formatter.loads(m.message)
            tm.parse_labels()
            msgs.append((m, tm))
            await r.callback(m.message)
        return runs[0], saves, seen, msgs, guard

    execs, saves, seen, msgs, guard = asyncio.run(go())
    me, ms = model(c)
    if guard >= 40:
        out.add("C11.a", "the task was still being re-sent after 40 deliveries (unbounded retry)")
    if execs != me:
        out.add("C11.a" if execs > me else "C11.d" if me == 1 else "C11.a",
                f"{execs} executions, reference model {me} (outcomes {c['outs'][:8]}, max_retries={c['mr']}, default {c['dflt_count']}, "
                f"retry_on_error={c['roe']!r}, default {c['dflt_label']})")
    elif [[s[0], s[1]] for s in saves] != ms:
        out.add("C11.c", f"saves (kind, after execution #) {[[s[0], s[1]] for s in saves]} != reference model {ms} (no_result_on_retry={c['nror']})")
    if len(msgs) != execs:
        out.add("C11.d", f"{len(msgs)} deliveries but {execs} executions")
    if any(s[2] != "T" for s in saves) or any(tm.task_id != "T" or m.task_id != "T" for m, tm in msgs):
        out.add("C11.b", "task id changed between attempts")
    for a, k in seen:
        if a != [1, "x", [2.5, None]] or k != {"z": {"k": 1}}:
            out.add("C11.b", f"attempt received args {short((a, k), 120)}")
            break
    for n, (m, tm) in enumerate(msgs):
        for key, val in c["user"].items():
            got = tm.labels.get(key, "<missing>")
            if type(got) is not type(val) or got != val:
                out.add("C11.b", f"attempt {n + 1}: user label {key!r} = {got!r} ({type(got).__name__}), sent {val!r} ({type(val).__name__})")
                break
    out.nontrivial = bool(me >= 2 or (c["mr"] and c["mr"][1] in (0, 1)) or isinstance(c["roe"], str))
    out.classes = [f"execs={min(me, 4)}{'+' if me > 4 else ''}", c["codec"]] + [cl for cl, f in (
        ("retry_flag_str", isinstance(c["roe"], str)), ("max_retries_str", bool(c["mr"] and c["mr"][0] == "str")),
        ("max_retries_0_or_1", bool(c["mr"] and c["mr"][1] in (0, 1))), ("ends_nores", c["outs"][min(me, len(c["outs"])) - 1] == "nores" if me <= len(c["outs"]) else False),
        ("capped", me < len([o for o in c["outs"] if o == "fail"]) + 0 and c["outs"][me - 1] == "fail")) if f]
    out.trace = {"executions": execs, "saves": [[s[0], s[1]] for s in saves], "deliveries": len(msgs)}
    return out


SELFTEST_CASES = [dict(outs=["fail", "fail", "ok"], mr=["str", 3], dflt_count=3, roe="true", dflt_label=False, nror=True, user={"u1": 5}, codec="json")]
