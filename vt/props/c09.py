"""C09 - labels keep value and type end to end; per-call customisation never leaks."""
from __future__ import annotations

import asyncio
import base64
import math
import struct
from typing import Any, Dict, List, Optional

from hypothesis import strategies as st
from hypothesis.stateful import RuleBasedStateMachine, invariant, rule

from taskiq import AsyncBroker, Context, SimpleRetryMiddleware, TaskiqDepends, TaskiqMiddleware
from taskiq.brokers.inmemory_broker import InmemoryResultBackend
from taskiq.brokers.shared_broker import AsyncSharedBroker
from taskiq.formatters.json_formatter import JSONFormatter
from taskiq.kicker import AsyncKicker
from taskiq.receiver import Receiver
from taskiq.serializers import PickleSerializer

from vt.core import engine
from vt.core.engine import Outcome, Part, short

PID = "C09"
RESERVED = {"timeout", "retry_on_error", "max_retries", "_retries", "schedule", "schedule_id", "task_name", "X-Taskiq-requeue"}
RULE = (
    "(1) 'roundtrips': Hypothesis label dictionaries (declared on the task + added through a kicker) over exact int "
    "(|v| < 10^60), float (incl. +-0.0, subnormal, inf, nan; compared bit-exact), bool, str (any surrogate-free text incl. "
    "'True', '5', '', 'nan') and bytes (empty, non-UTF-8), keys any text outside the names with built-in meaning; codec "
    "JSON / pickle / JSONFormatter; a plan of 0-3 re-deliveries, each a retry (SimpleRetryMiddleware) or a requeue "
    "(Context.requeue), through the real kicker, formatter bytes and Receiver.callback. Oracle: the labels seen by a "
    "pre_execute middleware (which hands on the same message object or a shallow / deep copy of it), by Context inside the task and in the stored result equal the sent ones in value and type on "
    "every delivery, and carry no label that was not given to that call (a second call of the same task with labels of its "
    "own goes through the same broker and middleware instances in a third of the cases). (2) 'kicker_histories': a RuleBasedStateMachine over one broker with two tasks, a shared task (AsyncSharedBroker with a default broker) and a second broker: "
    "rules new_kicker / with_labels / with_task_id / with_broker / kiq on a kicker / kiq directly on the task / "
    "schedule-style kicker built by hand, in any order; model: declared labels are constants, a send carries declared "
    "+ that kicker's own labels, id and broker only. Invariant after every rule: task.labels equals the declared "
    "snapshot and every recorded send equals the model. Non-trivial: a dictionary with >=3 of the 5 types or >=1 "
    "re-delivery; a history with >=2 sends of one task of which one used with_labels."
    " Two calls may be in flight concurrently (each delivery wave processed with gather) and the task also reads its Context through a dependency declared use_cache=False that is resolved after an awaiting dependency: it must show this call's labels and task id."
)
ASSUMPTIONS = ["deliveries are driven through Receiver.callback directly (timing is irrelevant to C09)",
               "labels of non-primitive types (LabelType.ANY) are outside the property"]


def same(a: Any, b: Any) -> bool:
    if type(a) is not type(b):
        return False
    if isinstance(a, float):
        return struct.pack("d", a) == struct.pack("d", b) or (math.isnan(a) and math.isnan(b))
    return a == b


def enc(v: Any) -> Any:
    """JSON-able encoding of a typed label value for the case file."""
    if isinstance(v, bytes):
        return {"b": base64.b64encode(v).decode()}
    if isinstance(v, float):
        return {"f": struct.pack(">d", v).hex()}
    if isinstance(v, bool):
        return {"t": v}
    if isinstance(v, int):
        return {"i": str(v)}
    return {"s": v}


def dec(e: Dict[str, Any]) -> Any:
    if "b" in e:
        return base64.b64decode(e["b"])
    if "f" in e:
        return struct.unpack(">d", bytes.fromhex(e["f"]))[0]
    if "t" in e:
        return bool(e["t"])
    if "i" in e:
        return int(e["i"])
    return e["s"]


VAL = st.one_of(
    st.integers(-10**60, 10**60), st.integers(-5, 5),
    st.floats(), st.sampled_from([0.0, -0.0, float("inf"), float("-inf"), float("nan"), 5e-324, 1e308, 0.1]),
    st.booleans(),
    st.text(alphabet=st.characters(blacklist_categories=("Cs",)), max_size=8), st.sampled_from(["True", "false", "5", "1.5", "", "nan", "None", "YQ=="]),
    st.binary(max_size=8), st.sampled_from([b"", b"\xff\xfe", b"True", b"\x00"]),
).map(enc)
KEY = st.one_of(st.text(alphabet=st.characters(blacklist_categories=("Cs",)), min_size=1, max_size=5), st.sampled_from(["a", "b", "x-y", "Ключ", "retry", "labels"])).filter(
    lambda k: k not in RESERVED)
LABELS = st.dictionaries(KEY, VAL, max_size=5)


def roundtrips() -> Any:
    return st.fixed_dictionaries({
        "decl": LABELS, "extra": LABELS,
        "codec": st.sampled_from(["json", "json", "pickle", "jsonfmt"]),
        "plan": st.lists(st.sampled_from(["retry", "requeue"]), max_size=3),
        # the observing pre_execute middleware hands on the message it got, or a (shallow / deep) copy of it - a message-replacing middleware
        "mw_returns": st.sampled_from(["same", "same", "copy", "deepcopy"]),
        # two calls in flight at the same time on one worker (each delivery wave is processed concurrently)
        "concurrent": st.sampled_from([False, True]),
        # the retry middleware's own control label given by the user in a type of its choice (the middleware reads it with int()):
        # it is a label like any other and keeps value and type on every delivery
        "max_retries": st.sampled_from([None, None, None, {"s": "9"}, {"f": struct.pack(">d", 9.0).hex()}, {"i": "9"}]),
        # the worker's own `timeout` label (generous, never fires) as int / str / float: a label like any other, too
        "timeout_label": st.sampled_from([None, None, None, {"i": "50"}, {"s": "50"}, {"s": "7.5"}, {"f": struct.pack(">d", 50.0).hex()}]),
        # a second call of the same task through the same broker / middleware instances, with labels of its own:
        # whatever one call carried must not show up in the other
        "second": st.one_of(st.none(), st.fixed_dictionaries({"extra": LABELS, "plan": st.lists(st.sampled_from(["retry", "requeue"]), max_size=2)})),
    })


class QB(AsyncBroker):
    def __init__(self) -> None:
        super().__init__()
        self.q: List[Any] = []
        self.all: List[Any] = []

    async def kick(self, m: Any) -> None:
        self.q.append(m)
        self.all.append(m)

    async def listen(self):  # type: ignore[override]
        yield b""


def run_roundtrip(c: Dict[str, Any]) -> Outcome:
    out = Outcome()
    decl = {k: dec(v) for k, v in c["decl"].items()}
    if c.get("max_retries"):
        decl["max_retries"] = dec(c["max_retries"])
    if c.get("timeout_label"):
        decl["timeout"] = dec(c["timeout_label"])
    calls = [{"extra": {k: dec(v) for k, v in c["extra"].items()}, "plan": list(c["plan"])}]
    if c.get("second"):
        calls.append({"extra": {k: dec(v) for k, v in c["second"]["extra"].items()}, "plan": list(c["second"]["plan"])})
    allplans = [x for cl in calls for x in cl["plan"]]
    out.clauses_checked = ["C09.a"] + (["C09.b"] if "retry" in allplans else []) + (["C09.c"] if "requeue" in allplans else []) + (["C09.d"] if len(calls) > 1 else [])
    SYSTEM = {"_retries", "X-Taskiq-requeue"}

    async def go() -> Any:
        b = QB()
        b.result_backend = InmemoryResultBackend()
        if c["codec"] == "pickle":
            b.serializer = PickleSerializer()
        if c["codec"] == "jsonfmt":
            b.formatter = JSONFormatter()
        seen: List[Any] = []
        runs: Dict[str, int] = {}

        class MW(TaskiqMiddleware):
            def pre_execute(self, message: Any) -> Any:
                seen.append(("middleware", message.task_id, runs.get(message.task_id, 0) + 1, dict(message.labels)))
                how = c.get("mw_returns", "same")
                return message if how == "same" else message.model_copy(deep=(how == "deepcopy"))

            def post_execute(self, message: Any, result: Any) -> None:
                # the same delivery's message AFTER the task body ran (it may have requeued or failed meanwhile)
                seen.append(("middleware_after", message.task_id, runs.get(message.task_id, 0), dict(message.labels)))

        b.add_middlewares(MW(), SimpleRetryMiddleware(default_retry_count=10, default_retry_label=True, no_result_on_retry=False))

        async def slow() -> int:
            await asyncio.sleep(0.001)      # a dependency that needs I/O: other deliveries start meanwhile
            return 1

        def labels_seen(cx: Context = TaskiqDepends()) -> Any:
            return (cx.message.task_id, dict(cx.message.labels))

        async def t(ctx: Context = TaskiqDepends(), s_: int = TaskiqDepends(slow), ls: Any = TaskiqDepends(labels_seen, use_cache=False)) -> Any:
            tid = ctx.message.task_id
            runs[tid] = runs.get(tid, 0) + 1
            if ls[0] != tid:
                seen.append(("context_in_uncached_dependency[task id %s]" % ls[0], tid, runs[tid], ls[1]))
            else:
                seen.append(("context_in_uncached_dependency", tid, runs[tid], ls[1]))
            seen.append(("context", tid, runs[tid], dict(ctx.message.labels)))
            plan = calls[int(tid[1:])]["plan"]
            if runs[tid] <= len(plan):
                if plan[runs[tid] - 1] == "retry":
                    raise ValueError("again")
                await ctx.requeue()
            return 1

        t.__module__ = __name__
        b.register_task(t, task_name="t")
        r = Receiver(b, max_async_tasks=5, run_startup=False)
        for n, cl in enumerate(calls):
            await AsyncKicker("t", b, dict(decl)).with_labels(**cl["extra"]).with_task_id(f"T{n}").kiq()
        deliveries = 0
        async def deliver(m: Any) -> None:
            try:
                await r.callback(m.message)
            except BaseException as e:  # noqa: BLE001
                escaped.append(f"{type(e).__name__}: {short(e, 200)}")

        while b.q and deliveries < 20:
            if c.get("concurrent") and len(b.q) > 1:
                wave = b.q[:]
                del b.q[:]
                deliveries += len(wave)
                await asyncio.gather(*[deliver(m) for m in wave])
                continue
            deliveries += 1
            await deliver(b.q.pop(0))
        results = {}
        for n in range(len(calls)):
            if await b.result_backend.is_result_ready(f"T{n}"):
                results[f"T{n}"] = await b.result_backend.get_result(f"T{n}")
        return seen, runs, results, deliveries

    escaped: List[str] = []
    seen, runs, results, deliveries = asyncio.run(go())
    for e in escaped:
        out.add("C09.a", f"processing a delivery raised {e}; labels={short({**decl, **calls[0]['extra']}, 200)} codec={c['codec']}")
    for n, cl in enumerate(calls):
        tid = f"T{n}"
        plan = cl["plan"]
        want = {**decl, **cl["extra"]}
        nrun = runs.get(tid, 0)
        if nrun != len(plan) + 1:
            kind = plan[nrun - 1] if 0 < nrun <= len(plan) else "?"
            out.add("C09.c" if kind == "requeue" else "C09.b",
                    f"call {n}: the task ran {nrun} time(s), expected {len(plan) + 1}: the {kind} after execution #{nrun} did not arrive "
                    f"(message lost or undecodable); labels={short(want, 200)} codec={c['codec']}")
        res = results.get(tid)
        obs = [(w, k, g) for (w, t_, k, g) in seen if t_ == tid]
        if res is not None and nrun == len(plan) + 1 and not res.is_err:
            obs.append(("result", nrun, dict(res.labels)))
        elif nrun == len(plan) + 1:
            out.add("C09.a", f"call {n}: no successful result stored after the last delivery (is_err={getattr(res, 'is_err', None)})")
        for where, k, got in obs:
            how = "first" if k == 1 else (plan[k - 2] if k - 2 < len(plan) else "?")
            clause = "C09.a" if how == "first" else ("C09.b" if how == "retry" else "C09.c")
            for key, v in want.items():
                if key not in got:
                    out.add(clause, f"call {n}: {where} on delivery #{k} (after {how}): label {key!r} missing; sent {v!r}")
                elif not same(got[key], v):
                    out.add(clause, f"call {n}: {where} on delivery #{k} (after {how}): label {key!r} = {got[key]!r} ({type(got[key]).__name__}), sent {v!r} ({type(v).__name__}); codec={c['codec']}")
            foreign = set(got) - set(want) - SYSTEM
            if foreign:
                out.add("C09.d", f"call {n}: {where} on delivery #{k} (after {how}) carries labels {sorted(foreign)} that were never given to this call "
                                 f"(sent {sorted(want)}; other call(s): {[sorted(x['extra']) for m, x in enumerate(calls) if m != n]})")
    types = {type(v).__name__ for cl in calls for v in {**decl, **cl["extra"]}.values()}
    out.nontrivial = bool(len(types) >= 3 or allplans)
    out.classes = [c["codec"], f"types={len(types)}", "plan=" + ("+".join(calls[0]["plan"]) or "none")] + sorted("has_" + t for t in types) + (["two_calls"] if len(calls) > 1 else []) + (["two_calls_concurrent"] if len(calls) > 1 and c.get("concurrent") else []) + (["message_replacing_middleware"] if c.get("mw_returns", "same") != "same" else [])
    out.trace = {"runs": runs, "deliveries": deliveries}
    return out


# ------------------------------------------------------------------ kicker histories (state machine)


class Sim:
    """Applies ops to the real API and to the model; check() compares."""
    DECL = [{"queue": "high", "prio": 5}, {"flag": True, "ratio": 0.5, "blob": b"\x00\xff"}, {"queue": "shared", "z": 1.5}]

    def __init__(self) -> None:
        self.loop = asyncio.new_event_loop()
        self.brokers = [QB(), QB()]
        self.snap = [dict(d) for d in self.DECL]
        self.tasks = []
        AsyncBroker.global_task_registry.clear()
        self.shared = AsyncSharedBroker()          # task 2 is a shared task sent through the default broker
        self.shared.default_broker(self.brokers[0])
        for ti, d in enumerate(self.DECL):
            def f(*a: Any, **k: Any) -> None:
                return None

            f.__module__ = __name__
            f.__name__ = f"task{ti}"
            owner = self.shared if ti == 2 else self.brokers[0]
            self.tasks.append(owner.register_task(f, task_name=f"task{ti}", **dict(d)))
        self.kickers: List[Any] = []       # (kicker, model) ; model = {task, labels, task_id, broker}
        self.expected: List[Any] = []      # per send: model dict
        self.sends_seen = 0
        self.ops: List[Any] = []
        self.sends_per_task = [0, 0, 0]
        self.with_labels_sends = [0, 0, 0]

    def close(self) -> None:
        self.loop.close()
        AsyncBroker.global_task_registry.clear()

    def apply(self, op: Dict[str, Any]) -> None:
        self.ops.append(op)
        o = op["op"]
        if o == "new_kicker":
            ti = op["task"] % 3
            self.kickers.append((self.tasks[ti].kicker(), {"task": ti, "labels": {}, "task_id": None, "broker": 0}))
            return
        if o == "kiq_task":
            ti = op["task"] % 3
            self.loop.run_until_complete(self.tasks[ti].kiq(op.get("arg")))
            self.expected.append({"task": ti, "labels": {}, "task_id": None, "broker": 0})
            self.sends_per_task[ti] += 1
            return
        if not self.kickers:
            return
        k, m = self.kickers[op["k"] % len(self.kickers)]
        if o == "with_labels":
            labels = {kk: dec(v) for kk, v in op["labels"].items()}
            k.with_labels(**labels)
            m["labels"].update(labels)
        elif o == "with_task_id":
            k.with_task_id(op["id"])
            m["task_id"] = op["id"]
        elif o == "with_broker":
            k.with_broker(self.brokers[op["b"] % 2])
            m["broker"] = op["b"] % 2
        elif o == "kiq":
            self.loop.run_until_complete(k.kiq(op.get("arg")))
            self.expected.append({"task": m["task"], "labels": dict(m["labels"]), "task_id": m["task_id"], "broker": m["broker"]})
            self.sends_per_task[m["task"]] += 1
            if m["labels"]:
                self.with_labels_sends[m["task"]] += 1

    def check(self, out: Outcome) -> None:
        for ti, t in enumerate(self.tasks):
            cur = t.labels
            if list(cur.keys()) != list(self.snap[ti].keys()) or any(not same(cur[k], v) for k, v in self.snap[ti].items()):
                out.add("C09.d", f"declared labels of task{ti} changed: now {short(cur, 200)}, declared {short(self.snap[ti], 200)}")
        sent = []
        for bi, b in enumerate(self.brokers):
            for m in b.all:
                sent.append((bi, m))
        # sends are recorded per broker; reconstruct global order through a counter stamped in kick order
        if len(sent) != len(self.expected):
            out.add("C09.d", f"{len(sent)} messages reached the brokers, model expects {len(self.expected)}")
            return
        # compare as multisets per broker in order
        per_b: Dict[int, List[Any]] = {0: [], 1: []}
        for e in self.expected:
            per_b[e["broker"]].append(e)
        for bi, b in enumerate(self.brokers):
            if len(b.all) != len(per_b[bi]):
                out.add("C09.d", f"broker {bi} received {len(b.all)} messages, model expects {len(per_b[bi])}")
                continue
            for n, (bm, e) in enumerate(zip(b.all, per_b[bi])):
                tm = b.formatter.loads(bm.message)
                tm.parse_labels()
                want = {**self.snap[e["task"]], **e["labels"]}
                if tm.task_name != f"task{e['task']}":
                    out.add("C09.d", f"broker {bi} send #{n}: task {tm.task_name}, model task{e['task']}")
                if set(tm.labels) != set(want) or any(not same(tm.labels[k], v) for k, v in want.items()):
                    out.add("C09.d", f"broker {bi} send #{n} of task{e['task']}: labels {short(tm.labels, 200)}, model {short(want, 200)} "
                                     f"(a customisation leaked into or out of this send)")
                if e["task_id"] is not None and tm.task_id != e["task_id"]:
                    out.add("C09.d", f"broker {bi} send #{n}: task id {tm.task_id!r}, kicker's custom id {e['task_id']!r}")
                if e["task_id"] is None and tm.task_id in {x["task_id"] for x in self.expected if x["task_id"]}:
                    out.add("C09.d", f"broker {bi} send #{n}: carries custom task id {tm.task_id!r} of another kicker")


def run_history(case: Dict[str, Any]) -> Outcome:
    out = Outcome()
    out.clauses_checked = ["C09.d"]
    sim = Sim()
    try:
        for op in case["ops"]:
            sim.apply(op)
            sim.check(out)
            if out.violations:
                break
        finish_history(sim, out)
    finally:
        sim.close()
    return out


def finish_history(sim: Sim, out: Outcome) -> None:
    nt = any(sim.sends_per_task[t] >= 2 and sim.with_labels_sends[t] >= 1 for t in (0, 1, 2))
    out.nontrivial = nt
    out.classes = [c for c, f in (("sends>=2_with_labels", nt), ("second_broker", any(e["broker"] == 1 for e in sim.expected)),
                                  ("custom_task_id", any(e["task_id"] for e in sim.expected))) if f]
    out.trace = {"ops": len(sim.ops), "sends": len(sim.expected)}


def make_machine(ctx: Any, ctx_state: Dict[str, Any]) -> Any:
    small = st.dictionaries(st.sampled_from(["queue", "extra", "prio", "z", "blob"]), VAL, min_size=1, max_size=2)

    class KickerMachine(RuleBasedStateMachine):
        def __init__(self) -> None:
            super().__init__()
            self.sim = Sim()

        def _step(self, op: Dict[str, Any]) -> None:
            self.sim.apply(op)
            out = Outcome()
            out.clauses_checked = ["C09.d"]
            self.sim.check(out)
            engine.machine_report(ctx, ctx_state, {"part": "kicker_histories", "ops": list(self.sim.ops)}, out, final=False)

        @rule(task=st.integers(0, 2))
        def new_kicker(self, task: int) -> None:
            self._step({"op": "new_kicker", "task": task})

        @rule(k=st.integers(0, 7), labels=small)
        def with_labels(self, k: int, labels: Dict[str, Any]) -> None:
            self._step({"op": "with_labels", "k": k, "labels": labels})

        @rule(k=st.integers(0, 7), i=st.integers(0, 3))
        def with_task_id(self, k: int, i: int) -> None:
            self._step({"op": "with_task_id", "k": k, "id": f"custom-{i}"})

        @rule(k=st.integers(0, 7), b=st.integers(0, 1))
        def with_broker(self, k: int, b: int) -> None:
            self._step({"op": "with_broker", "k": k, "b": b})

        @rule(k=st.integers(0, 7))
        def kiq(self, k: int) -> None:
            self._step({"op": "kiq", "k": k, "arg": 1})

        @rule(task=st.integers(0, 2))
        def kiq_task(self, task: int) -> None:
            self._step({"op": "kiq_task", "task": task, "arg": 2})

        def teardown(self) -> None:
            out = Outcome()
            out.clauses_checked = ["C09.d"]
            finish_history(self.sim, out)
            engine.machine_report(ctx, ctx_state, {"part": "kicker_histories", "ops": list(self.sim.ops)}, out, final=True)
            self.sim.close()

    return KickerMachine


def parts(tier: str) -> List[Part]:
    if tier == "thorough":
        return [Part("roundtrips", "given", shards=12, examples=15000, strategy=roundtrips, soft_deadline_s=3000),
                Part("kicker_histories", "machine", shards=4, examples=6000, machine=make_machine, steps=30, soft_deadline_s=3000)]
    return [Part("roundtrips", "given", shards=6, examples=600, strategy=roundtrips, soft_deadline_s=120),
            Part("kicker_histories", "machine", shards=2, examples=250, machine=make_machine, steps=20, soft_deadline_s=120)]


def run_case(case: Dict[str, Any]) -> Outcome:
    if "ops" in case:
        return run_history(case)
    return run_roundtrip(case)


SELFTEST_CASES = [{"decl": {"a": {"i": "5"}}, "extra": {"b": {"b": "/w=="}}, "codec": "json", "plan": ["retry"]},
                  {"part": "kicker_histories", "ops": [{"op": "new_kicker", "task": 0}, {"op": "kiq", "k": 0, "arg": 1}]}]


# ---------------------------------------------------------------- one kicker used for many sends, in a tight loop
#
# kiq(), with_labels(), with_labels(), kiq() ... on ONE kicker object without anything else going on in between (no
# bookkeeping of the harness between the calls): what each send carries is what the kicker held at that moment.


def tight_cases() -> Any:
    small = st.dictionaries(st.sampled_from(["queue", "extra", "prio", "z", "blob"]), VAL, min_size=1, max_size=2)
    op = st.one_of(st.just(["kiq"]), st.just(["kiq"]), small.map(lambda l: ["wl", l]))
    return st.fixed_dictionaries({"tight": st.just(True), "decl": LABELS, "seq": st.lists(op, min_size=2, max_size=10)})


def run_tight(c: Dict[str, Any]) -> Outcome:
    out = Outcome()
    out.clauses_checked = ["C09.d"]
    decl = {k: dec(v) for k, v in c["decl"].items()}
    seq = [(o[0], {k: dec(v) for k, v in o[1].items()} if len(o) > 1 else None) for o in c["seq"]]

    async def go() -> Any:
        b = QB()

        def t() -> None:
            return None

        t.__module__ = __name__
        task = b.register_task(t, task_name="t", **decl)
        k = task.kicker()
        for kind, labels in seq:            # nothing but the calls themselves
            if kind == "kiq":
                await k.kiq()
            else:
                k = k.with_labels(**labels)
        return b.all, b.formatter

    sent, fmt = asyncio.run(go())
    cur = dict(decl)
    expect = []
    for kind, labels in seq:
        if kind == "kiq":
            expect.append(dict(cur))
        else:
            cur.update(labels)
    if len(sent) != len(expect):
        out.add("C09.d", f"{len(sent)} messages sent for {len(expect)} kiq() calls")
    for n, (m, want) in enumerate(zip(sent, expect)):
        tm = fmt.loads(m.message)
        tm.parse_labels()
        got = dict(tm.labels)
        bad = [key for key in set(want) | set(got) if key not in want or key not in got or not same(got[key], want[key])]
        if bad:
            key = sorted(bad)[0]
            out.add("C09.d", f"send #{n + 1} of one kicker (history {[o[0] for o in c['seq']]}): label {key!r} arrived as {got.get(key, '<missing>')!r}, "
                             f"the kicker held {want.get(key, '<absent>')!r} at that moment")
            break
    nk = sum(1 for kind, _ in seq if kind == "kiq")
    out.nontrivial = bool(nk >= 2 and any(kind == "wl" for kind, _ in seq))
    out.classes = ["tight_sequence"] + (["two_relabels_between_sends"] if any(seq[i][0] == "wl" and seq[i + 1][0] == "wl" for i in range(len(seq) - 1)) else [])
    return out


_base_parts09, _base_run09 = parts, run_case


def parts(tier: str) -> List[Part]:  # type: ignore[no-redef]
    nn = 4000 if tier == "thorough" else 400
    return _base_parts09(tier) + [Part("tight_sequences", "given", shards=2, examples=nn, strategy=tight_cases, soft_deadline_s=900 if tier == "thorough" else 100)]


def run_case(case: Dict[str, Any]) -> Outcome:  # type: ignore[no-redef]
    return run_tight(case) if case.get("tight") else _base_run09(case)
