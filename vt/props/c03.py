"""C03 - concurrency limit respected, execution slots never leaked."""
from __future__ import annotations

from typing import Any, Dict, List

from hypothesis import strategies as st

from vt.core.engine import Outcome, Part
from vt.harness import worker as wh
from vt.props import common as cm

PID = "C03"
RULE = (
    "Hypothesis-generated histories of 0-8 messages with outcomes success / Exception / BaseException / timeout / "
    "no-result / malformed / unknown task, result-backend failures on a generated subset of saves and 0-2 "
    "middlewares whose pre_execute/post_execute/on_error/post_save hooks raise for a generated subset of messages, ack "
    "callbacks that raise, async task bodies with an asynchronous clean-up in `finally` (they outlive their cancellation), "
    "A in 1..4, P in 0..3; followed by a saturation probe of A barrier tasks that each wait until all A are running and then a burst of A+P+2 slow messages. "
    "Oracle over the trace: number of messages between their first and last observable event never exceeds A; A=1 => "
    "executions disjoint and in delivery order; the barrier opens (A slots usable after the history); every "
    "message is taken and every well-formed one whose pre_execute hooks did not fail is executed. "
    "Non-trivial: >=A non-success outcomes precede the probe, or a completion and an arrival share an instant."
    " A failing hook raises either a printable exception or one whose __str__ itself raises."
)
ASSUMPTIONS = ["virtual-time loop, inline executor; processing interval = [first, last] observable event (under-approximation)"]

HOOKNAMES = ["pre_execute", "post_execute", "on_error", "post_save"]


def scenario(big: bool = False) -> Any:
    def fin(d: Dict[str, Any]) -> Dict[str, Any]:
        msgs = cm.sort_msgs(d["msgs"])
        A = d["A"]
        ls = d.pop("long_saturation")
        if ls:
            # all slots busy without a gap for a long while (45 s / 100 s) with one more message waiting for a slot the whole time
            msgs = [{"kind": "async", "at": 0.0, "dur": ls, "out": "ret", "ack": "sync", "timeout": None} for _ in range(A)] + \
                   [{"kind": "async", "at": 0.1, "dur": 0.1, "out": "ret", "ack": "sync", "timeout": None}] + \
                   [dict(m, at=cm.r9(m["at"] + ls + 1.0)) for m in msgs[:3]]
        if d.pop("park"):
            # all but the last of the history's waiting functions wait on a future that nothing but the function itself holds strongly
            # (a reply kept in a weak registry); a garbage-collection pass runs before each is woken up (see the harness)
            cand = [m for m in msgs if m["kind"] == "async" and m["dur"] and m.get("timeout") is None]
            for m in cand[:-1] or cand:
                m["parked"] = True
        hist_end = cm.r9(max([m["at"] for m in msgs], default=0.0) + sum(m["dur"] for m in msgs) + 0.3 * len(msgs) + 1.0)
        gap = d.pop("probe_gap")
        for k in range(A):
            msgs.append({"kind": "async", "at": cm.r9(hist_end + k * gap), "dur": 0.0, "out": "ret", "ack": "sync",
                         "timeout": None, "barrier": True})
        nh = len(msgs) - A
        # after the barrier: a burst of slow messages - the limit must also hold when the history would have
        # handed out MORE slots than configured (double release), not only fewer (leak)
        burst_at = cm.r9(hist_end + A * gap + 31.0)
        for k in range(A + d["P"] + 2):
            msgs.append({"kind": "async", "at": burst_at, "dur": 1.0, "out": "ret", "ack": "sync", "timeout": None, "burst": True})
        d["msgs"] = msgs
        mws = []
        for mw in d.pop("mws"):
            spec = {}
            for hook, hs in mw.items():
                spec[hook] = {"async": hs["async"], "fail_on": sorted(i for i in hs["fail_on"] if i < nh)}
            mws.append(spec)
        d["mws"] = mws
        d["fail_saves"] = sorted(d["fail_saves"])
        d.update({"N": None, "W": None, "stop": None, "ends": True})
        if d.pop("via_api"):
            # the worker is run with taskiq.api.run_receiver_task; after the history, while it is idle, the broker subscription
            # breaks once (listen() raises) and the runner subscribes again - the probe must still find all A slots
            d.update({"via_api": True, "stream_fault": nh, "ends": False})
        d["horizon"] = cm.r9(hist_end + 40.0 + A * gap + 31.0 + 2.0 * (A + d["P"] + 3))
        d["drain"] = 0.0
        return d

    hook = st.fixed_dictionaries({"async": st.sampled_from([False, True, "deferred", "future", "awaitable"]), "fail_on": st.sets(st.integers(0, 7), max_size=4)})
    mw = st.dictionaries(st.sampled_from(HOOKNAMES), hook, max_size=4)
    msg = cm.message(timeouts=(None, None, None, 0.3, "1"), acks=("sync", "async", None, "sync_fail", "async_fail", "future", "deferred", "cancelled_future"), cleanups=(0, 0, 0.2, 0.4))
    return st.fixed_dictionaries({
        "A": st.integers(1, 6 if big else 4), "P": st.integers(0, 5 if big else 3),
        "ack_type": st.sampled_from(["when_received", "when_executed", "when_saved"]),
        "msgs": st.lists(msg, min_size=0, max_size=14 if big else 8),
        "fail_saves": st.sets(st.integers(0, 7), max_size=4),
        # persistent failures: the result of these messages can never be saved, whatever is retried; and what the backend raises
        "fail_save_ids": st.one_of(st.just([]), st.just([]), st.lists(st.integers(0, 5), max_size=2, unique=True).map(sorted)),
        "save_exc": st.sampled_from(["RuntimeError", "RuntimeError", "ConnectionError", "TimeoutError", "OSError", "ConnectionResetError", "ValueError", "BadStrError"]),
        "save_latency": st.sampled_from([0.0, 0.0, 0.1]),
        "mws": st.lists(mw, max_size=2),
        "probe_gap": st.sampled_from([0.0, 0.0, 0.05]),
        "via_api": st.sampled_from([False, False, False, True]),
        "eager_tasks": st.sampled_from([False, False, False, True]),
        "park": st.sampled_from([False, False, False, True]),
        "long_saturation": st.sampled_from([None] * 7 + [45.0, 100.0]),
        "hook_exc": st.sampled_from(["RuntimeError", "RuntimeError", "BadStrError"]),      # what a failing hook raises: printable or not
    }).map(fin)


def parts(tier: str) -> List[Part]:
    if tier == "thorough":
        return [Part("histories", "given", shards=16, examples=12000, strategy=lambda: scenario(True), soft_deadline_s=3000)]
    return [Part("histories", "given", shards=8, examples=600, strategy=scenario, soft_deadline_s=120)]


def run_case(sc: Dict[str, Any]) -> Outcome:
    out = Outcome()
    specs = sc["msgs"]
    A = sc["A"]
    res = wh.run_worker(sc)
    tr = res["trace"]
    out.trace = wh.brief_trace(tr, 80)
    out.clauses_checked = ["C03.a", "C03.c", "C03.d"] + (["C03.b"] if A == 1 else [])
    if sc.get("via_api"):
        if res["listen_exc"] or res["deadlock"] or res["returned"]:
            out.add("C03.d", f"run_receiver_task stopped: exc={res['listen_exc']} deadlock={res['deadlock']} returned={res['returned']}")
    elif res["listen_exc"] or res["deadlock"] or not res["returned"]:
        out.add("C03.d", f"listen() did not finish normally: exc={res['listen_exc']} deadlock={res['deadlock']} returned={res['returned']}")
    first: Dict[Any, int] = {}
    last: Dict[Any, int] = {}
    for n, (t, kind, m, kw) in enumerate(tr):
        if m is None or kind == "take":
            continue
        first.setdefault(m, n)
        last[m] = n
    pts = sorted([(first[k], 1) for k in first] + [(last[k] + 0.5, -1) for k in last])
    active = mx = 0
    for _, d in pts:
        active += d
        mx = max(mx, active)
    if mx > A:
        out.add("C03.a", f"{mx} messages were being processed at once with max_async_tasks={A}")
    taken = [m for t, k, m, kw in tr if k == "take"]
    if A == 1:
        enters = [m for t, k, m, kw in tr if k == "enter"]
        exp = [m for m in taken if m in set(enters)]
        if enters != exp:
            out.add("C03.b", f"A=1: execution order {enters} differs from delivery order {exp}")
    # progress
    if len(taken) != len(specs):
        out.add("C03.d", f"only {len(taken)} of {len(specs)} messages were taken although the worker was never stopped")
    entered = {m for t, k, m, kw in tr if k == "enter"}
    pre_fail = set()
    for mw in sc.get("mws", []):
        pre_fail |= set(mw.get("pre_execute", {}).get("fail_on", ()))
    for i in taken:
        if sc["ack_type"] == "when_received" and (str(specs[i].get("ack", "")).endswith("_fail") or specs[i].get("ack") == "cancelled_future"):
            continue    # the failing ack callback runs before the task function: the execution is legitimately lost
        if wh.is_good(specs[i]) and i not in pre_fail and i not in entered:
            out.add("C03.d", f"well-formed message {i} was taken but never executed")
    # saturation probe
    probes = [i for i, sp in enumerate(specs) if sp.get("barrier")]
    okb = {m for t, k, m, kw in tr if k == "barrier_ok"}
    if any(p in entered for p in probes) or res["returned"]:
        missing = [p for p in probes if p not in okb]
        if missing:
            nent = sum(1 for p in probes if p in entered)
            out.add("C03.c", f"saturation probe failed: only {nent} of {A} probe tasks ran concurrently after the history "
                             f"(slot leak); probes without barrier_ok={missing}")
    # classification
    nh = sum(1 for sp in specs if not sp.get("barrier") and not sp.get("burst"))
    nonsucc = 0
    for i in range(nh):
        sp = specs[i]
        if not wh.is_good(sp) or sp["out"] != "ret" or wh.timeout_verdict(sp) == "timeout":
            nonsucc += 1
    hookfail = any(e[1] in HOOKNAMES for e in tr) and any(hs.get("fail_on") for mw in sc["mws"] for hs in mw.values())
    savefail = any(e[1] == "save_failed" for e in tr)
    ends = {round(tr[last[m]][0], 6) for m in last if m < nh}
    arrivals = {round(sp["at"], 6) for sp in specs[:nh]}
    coincide = bool(ends & arrivals) and nh > 1
    out.nontrivial = bool(nonsucc + (1 if hookfail else 0) + (1 if savefail else 0) >= A or coincide)
    out.classes = [f"A={A}"] + (["run_receiver_task_resubscribes"] if sc.get("via_api") else []) + (["eager_task_factory"] if sc.get("eager_tasks") else []) + [c for c, f in (("hook_failure", hookfail), ("save_failure", savefail),
                                              ("coincident_completion_arrival", coincide), ("nonsuccess>=A", nonsucc >= A)) if f]
    return out


SELFTEST_CASES = []


# ---------------------------------------------------------------- sync functions through a real thread pool
#
# An outcome that cannot travel from the pool's future into the loop's (a StopIteration) leaves the execution hanging and its
# slot occupied for good.  Same harness as C07's `sync_pool` part (real ThreadPoolExecutor, completion detected with barrier
# jobs, no wall-clock verdict); here a hung execution is a slot leak (C03.c).

from vt.props import c07 as _c07

_parts_core03, _run_core03 = parts, run_case


def parts(tier: str) -> List[Part]:  # type: ignore[no-redef]
    n = 900 if tier == "thorough" else 80
    return _parts_core03(tier) + [Part("sync_pool", "given", shards=2, examples=n, strategy=_c07.pool_cases, soft_deadline_s=900 if tier == "thorough" else 100)]


def run_case(sc: Dict[str, Any]) -> Outcome:  # type: ignore[no-redef]
    if not sc.get("pool"):
        return _run_core03(sc)
    inner = _c07.run_pool_case(sc)
    out = Outcome()
    out.clauses_checked = ["C03.c"]
    for v in inner.violations:
        if "never completed" in v.detail:
            out.add("C03.c", v.detail + " - the worker has one execution slot less from now on")
    out.nontrivial, out.classes, out.trace = inner.nontrivial, inner.classes, inner.trace
    return out


# ---------------------------------------------------------------- CLI wiring: from worker flags to the receiver
#
# the limit given with --max-async-tasks (default 100) is the one the worker's receiver enforces, whatever other options accompany it and
# in whatever order.  Flags are parsed with the real WorkerArgs.from_cli and the real start_listen() builds the receiver.

from vt.harness import cliwire as _cliwire

_parts_core03b, _run_core03b = parts, run_case


def parts(tier: str) -> List[Part]:  # type: ignore[no-redef]
    return _parts_core03b(tier) + [Part("cli_wiring", "given", shards=1, examples=1500 if tier == "thorough" else 150,
                                        strategy=lambda: _cliwire.FLAGS.map(lambda f: {"flags": f}), soft_deadline_s=300)]


def run_case(case: Dict[str, Any]) -> Outcome:  # type: ignore[no-redef]
    if "flags" not in case:
        return _run_core03b(case)
    out = Outcome()
    out.clauses_checked = ["C03.a"]
    _cliwire.check(case["flags"], ["max_async_tasks"], "C03.a", out)
    out.nontrivial = any(case["flags"].get(k) not in (None, False) for k in case["flags"])
    out.classes = ["cli_wiring"]
    return out
