"""C20 - loading a stored error never instantiates anything but an exception class."""
from __future__ import annotations

import sys
import types as _types_mod
from typing import Any, Dict, Iterable, List, Optional

import pydantic
from hypothesis import strategies as st

import taskiq.cli.scheduler.run  # noqa: F401  (load the CLI modules: more names in sys.modules)
import taskiq.cli.worker.run  # noqa: F401
from taskiq.exceptions import SecurityError
from taskiq.result import TaskiqResult
from taskiq.serialization import exception_to_python

from vt.core.engine import Outcome, Part, short
from vt.harness import traps

PID = "C20"
PROBE_ARG = "\x00vt-probe"
RULE = (
    "(1) 'all_names': EXHAUSTIVE enumeration of every (module, name) with name in vars(module) - plus, for modules with a module-level __getattr__, the names they advertise in __all__ / dir() and serve lazily - for every module in "
    "sys.modules after importing taskiq, its CLI and the harness (~17 000 pairs; a deny-list of ~40 names whose call "
    "would be destructive if the gate were broken is skipped and counted), each loaded at top level and nested under "
    "exc_cause / exc_context at depth 1-3 of a valid outer error, through exception_to_python and through "
    "TaskiqResult validation. (2) 'payloads': Hypothesis-generated payload trees (depth <= 3, cause and context "
    "branches) whose nodes name: recording trap functions / lambdas / callable instances / functools.partial / a callable non-class object exposing __bases__ = (ValueError,) / "
    "non-exception classes with recording __new__/__init__ / a metaclass-callable class / exception instances / "
    "modules / builtins eval, print, type, object - reached by dotted paths of length 1-4 through module and class "
    "attributes - as well as exception classes (incl. nested and aliased ones, one whose constructor always fails), "
    "unresolvable names, exc_module=None, nodes given as the wrapper object of pickle-encoded results instead of the dict form, planted loaded modules that serve names lazily by importing another module (a module-level __getattr__; an instance of a ModuleType subclass with a class-level __getattr__ and a property), modules that are not loaded (including a submodule of a planted importable-but-unloaded package, and a planted importable-but-unloaded "
    "module whose import leaves a marker); args of any JSON shape. Oracle: the outcome is a BaseException instance, or "
    "SecurityError, or pydantic ValidationError/ValueError - nothing else; no trap was called or instantiated; "
    "set(sys.modules) is unchanged and the marker absent; an unresolvable name yields a synthetic Exception subclass "
    "of that name; a name that resolves to an exception class yields an instance of it or the generic fallback. "
    "(3) 'histories': sequences of 2-10 loads interleaved with unloading / (re)defining the modules the payloads name "
    "(module names unique per case), incl. the pair (module=None, type='M.f') then (module='M', type='f'); every load is "
    "judged against the state of sys.modules at that moment. "
    "Non-trivial: the name resolves to something that is not an exception class, or sits at nesting depth >= 1; a history "
    "is non-trivial when module state changed between two loads."
)
ASSUMPTIONS = [
    "a name a loaded module only serves on demand through a module-level __getattr__ (PEP 562) counts as NOT resolvable: resolving it would import modules, "
    "which the property forbids; the enumeration adds the names such modules advertise in __all__ / dir() to vars(module)",
    "every payload carries the single argument '\\x00vt-probe' in the exhaustive part so that a broken gate cannot do damage",
]

DENY = {
    ("sys", "setprofile"), ("sys", "settrace"), ("sys", "exit"), ("sys", "_setprofileallthreads"), ("sys", "_settraceallthreads"),
    ("threading", "setprofile"), ("threading", "settrace"), ("threading", "setprofile_all_threads"), ("threading", "settrace_all_threads"),
    ("builtins", "input"), ("builtins", "breakpoint"), ("builtins", "exit"), ("builtins", "quit"), ("builtins", "help"),
    ("builtins", "exec"), ("builtins", "eval"), ("builtins", "__import__"), ("builtins", "open"),
    ("os", "abort"), ("os", "_exit"), ("os", "fork"), ("os", "forkpty"), ("os", "system"), ("os", "popen"), ("os", "remove"),
    ("os", "unlink"), ("os", "rmdir"), ("os", "removedirs"), ("os", "kill"), ("os", "killpg"),
    ("posix", "abort"), ("posix", "_exit"), ("posix", "fork"), ("posix", "forkpty"), ("posix", "system"), ("posix", "remove"),
    ("posix", "unlink"), ("posix", "rmdir"), ("posix", "kill"), ("posix", "killpg"),
    ("shutil", "rmtree"), ("faulthandler", "_sigsegv"), ("faulthandler", "_fatal_error_c_thread"), ("faulthandler", "_read_null"),
    ("faulthandler", "_sigabrt"), ("faulthandler", "_sigfpe"), ("faulthandler", "_stack_overflow"), ("faulthandler", "_fatal_error"),
    ("ctypes", "string_at"), ("ctypes", "wstring_at"), ("_ctypes", "call_function"), ("_ctypes", "call_cdeclfunction"),
}
traps.install()
_PAIRS: Optional[List[Any]] = None


def all_pairs() -> List[Any]:
    global _PAIRS
    if _PAIRS is None:
        out = []
        for mname in sorted(sys.modules):
            mod = sys.modules.get(mname)
            if mod is None or mname.startswith("hypothesis") or mname.startswith("vt."):
                continue
            if traps.is_unexecuted_module(mod):
                out.append((mname, "Boom"))       # looking into it would import it; ask for the one name it is known to define
                continue
            try:
                names = sorted(n for n in vars(mod) if isinstance(n, str))
            except TypeError:
                continue
            if "__getattr__" in names:
                # names the module serves on demand (PEP 562): advertised in __all__ / dir() but absent from its namespace
                extra = set()
                try:
                    extra |= {n for n in (getattr(mod, "__all__", None) or ()) if isinstance(n, str)}
                    extra |= {n for n in dir(mod) if isinstance(n, str)}
                except Exception:  # noqa: BLE001
                    pass
                names = sorted(set(names) | extra)
            for n in names:
                if "." in n:
                    continue
                out.append((mname, n))
        _PAIRS = out
    return _PAIRS


SHAPES = [(0, None), (1, "cause"), (1, "context"), (2, "cause"), (3, "context")]


def enumerate_cases(shard: int, nshards: int) -> Iterable[Dict[str, Any]]:
    for i, (m, n) in enumerate(all_pairs()):
        if i % nshards != shard:
            continue
        for depth, via in SHAPES:
            yield {"module": m, "name": n, "depth": depth, "via": via, "args": [PROBE_ARG]}
        # the same name asked for in a sub-module that is not loaded (its parent is, and has the name): unresolvable all the same
        yield {"module": m + ".vt_not_loaded", "name": n, "depth": 0, "via": None, "args": [PROBE_ARG]}


# ---- generated payload trees

TRAP_TARGETS = [
    ("vt_trapmod", "func"), ("vt_trapmod", "lam"), ("vt_trapmod", "callable_instance"), ("vt_trapmod", "partial"), ("vt_trapmod", "class_proxy"),
    ("vt_trapmod", "NotExc"), ("vt_trapmod", "NotExc.static"), ("vt_trapmod", "NotExc.clsm"), ("vt_trapmod", "NotExc.InnerNot"),
    ("vt_trapmod", "LooksLikeExc"), ("vt_trapmod", "exc_instance"), ("vt_trapmod", "number"), ("vt_trapmod", "none"),
    ("vt_trapmod", "builtin_eval"), ("vt_trapmod", "builtin_print"), ("vt_trapmod", "type_type"), ("vt_trapmod", "object_type"),
    ("vt_trapmod", "sub"), ("vt_trapmod", "sub.func"), ("vt_trapmod.sub", "func"), ("builtins", "eval"), ("builtins", "print"),
    ("os", "system"), ("os", "path.join"), ("functools", "partial"), ("vt_trapmod", "exc_instance.__class__.__base__.__subclasses__"),
    ("vt_trapmod", "lazy_mod"),
    ("vt_trapmod", "nosy"), ("vt_trapmod", "nosy.method"), ("vt_trapmod", "nosy_partial"), ("vt_trapmod", "NosyClass"), ("vt_trapmod", "nosy.__class__"),
    ("vt_trapmod", "GoodExc.__init__"), ("vt_trapmod", "GoodExc.mro"), ("vt_trapmod", "GoodExc.__class__"), ("builtins", "BaseException.__new__"),
]
EXC_TARGETS = [
    ("vt_trapmod", "GoodExc"), ("vt_trapmod", "GoodBase"), ("vt_trapmod", "NotExc.InnerExc"), ("vt_trapmod", "exc_type_alias"),
    ("vt_trapmod", "sub.SubExc"), ("vt_trapmod.sub", "SubExc"), ("builtins", "ValueError"), ("builtins", "KeyboardInterrupt"),
    ("vt_trapmod", "CtorFails"), ("vt_trapmod_lazy", "Eager"), ("vt_trapmod_lazysub", "Eager"), ("taskiq.exceptions", "TaskiqError"), ("asyncio", "CancelledError"), ("vt_trapmod", "exc_instance.__class__"),
]
UNRESOLVED = [
    ("vt_trapmod", "nope"), ("vt_trapmod", "GoodExc.nope"), ("vt_trapmod", "sub.nope.deeper"), ("builtins", "NoSuchError"),
    ("vt_lazy_unloaded", "Boom"), ("vt_lazy_unloaded", "nope"), ("vt_trapmod", "lazy_mod.Boom"),
    ("vt_unloaded_trap", "Boom"), ("vt_unloaded_trap", "run"), ("not.a.loaded.module", "X"), ("vt_unloaded_pkg.sub", "Boom"), ("vt_unloaded_pkg.nosuch", "X"), ("vt_unloaded_pkg", "sub.Boom"), ("json.nonexistent_submodule", "X"), ("json.nonexistent_submodule", "JSONDecodeError"), ("os.not_there", "error"), ("os.not_there", "system"),
    ("vt_trapmod.nosuchsub", "GoodExc"), ("vt_trapmod.nosuchsub", "func"), ("vt_trapmod.sub.deeper", "SubExc"), ("builtins.x", "ValueError"), ("asyncio.nope.deeper", "CancelledError"),
    ("vt_trapmod_lazy", "LazyExc"), ("vt_trapmod_lazy", "lazy_func"), ("vt_trapmod_lazy", "lazy_sub.run"), ("vt_trapmod_lazy", "nope"), ("vt_trapmod_lazysub", "LazyExc"), ("vt_trapmod_lazysub", "lazy_func"), ("vt_trapmod_lazysub", "computed"),
    ("vt_trapmod", "handler.<locals>.ValidationFailed"), ("not.loaded.mod", "Page[int].NotFound"), (None, "billing-service.QuotaError"), ("vt_trapmod", "Quota Error"),
    ("vt_trapmod", ""), ("", "ValueError"), (None, "SomeRemoteError"), (None, "eval"), (None, "os.system"),
]
JSONV = st.recursive(st.one_of(st.none(), st.booleans(), st.integers(-10**6, 10**6), st.text(max_size=4)),
                     lambda c: st.one_of(st.lists(c, max_size=2), st.dictionaries(st.text(max_size=2), c, max_size=2)), max_leaves=4)


def payloads() -> Any:
    target = st.one_of(st.sampled_from(TRAP_TARGETS), st.sampled_from(TRAP_TARGETS), st.sampled_from(EXC_TARGETS), st.sampled_from(UNRESOLVED))
    # "wrapper": the node is the wrapper object taskiq stores for pickle-encoded results (module, class name, args,
    # text) instead of the dict form - it reaches the same loader through exception_to_python / TaskiqResult validation
    wrap = st.sampled_from([False, False, False, True])
    leaf = st.fixed_dictionaries({"t": target.map(list), "args": st.lists(JSONV, max_size=3), "suppress": st.booleans(), "wrapper": wrap})

    def extend(ch: Any) -> Any:
        return st.fixed_dictionaries({"t": target.map(list), "args": st.lists(JSONV, max_size=2), "suppress": st.booleans(),
                                      "cause": st.one_of(st.none(), ch), "context": st.one_of(st.none(), ch), "wrapper": st.just(False)})

    return st.fixed_dictionaries({"tree": st.recursive(leaf, extend, max_leaves=5),
                                  "entry": st.sampled_from(["function", "result", "result_json"])})


def parts(tier: str) -> List[Part]:
    if tier == "thorough":
        return [Part("all_names", "enum", shards=16, examples=0, enumerate=enumerate_cases, exhaustive=True, soft_deadline_s=2400),
                Part("payloads", "given", shards=8, examples=20000, strategy=payloads, soft_deadline_s=1500),
                # the same payload strategy driven by libFuzzer (atheris) with branch coverage of `taskiq` as guidance
                Part("payloads_cov", "covguided", shards=4, examples=20000, strategy=payloads, soft_deadline_s=1500)]
    return [Part("all_names", "enum", shards=12, examples=0, enumerate=enumerate_cases, exhaustive=True, soft_deadline_s=200),
            Part("payloads", "given", shards=4, examples=2500, strategy=payloads, soft_deadline_s=100)]


# ---- oracle


def resolve(module: Optional[str], name: str) -> Any:
    """('unresolved', None) | ('object', obj) following the documented lookup: sys.modules only, getattr chain."""
    if module is None:
        return "nomodule", None
    if module not in sys.modules:
        return "unresolved", None
    obj: Any = sys.modules[module]
    try:
        for part in name.split("."):
            if traps.is_unexecuted_module(obj):
                return "unresolved", None       # resolving a name through it would run the module = import it
            if isinstance(obj, _types_mod.ModuleType):
                # what a module HAS, not what it would fetch on demand: a module-level __getattr__ (PEP 562) may import
                # modules, and "resolved" means resolved without importing anything
                ns = vars(obj)
                if part not in ns:
                    return "unresolved", None
                obj = ns[part]
            else:
                obj = getattr(obj, part)
    except AttributeError:
        return "unresolved", None
    return "object", obj


def node_payload(module: Optional[str], name: str, args: List[Any], suppress: bool = False) -> Dict[str, Any]:
    return {"exc_type": name, "exc_message": list(args), "exc_module": module, "exc_cause": None, "exc_context": None,
            "exc_suppress_context": suppress}


def _wrapper_cls() -> Any:
    import taskiq.serialization as ser

    return getattr(ser, "_UnpickleableExceptionWrapper", None)


def is_wrapper(t: Dict[str, Any]) -> bool:
    return bool(t.get("wrapper")) and isinstance(t["t"][0], str) and _wrapper_cls() is not None


def build_tree(t: Dict[str, Any]) -> Any:
    if is_wrapper(t):
        return _wrapper_cls()(t["t"][0], t["t"][1], tuple(t["args"]), "stored text")
    p = node_payload(t["t"][0], t["t"][1], t["args"], t.get("suppress", False))
    if t.get("cause"):
        p["exc_cause"] = build_tree(t["cause"])
    if t.get("context"):
        p["exc_context"] = build_tree(t["context"])
    return p


def expect_tree(t: Dict[str, Any]) -> str:
    """'security' if any node that is actually visited resolves to a non-exception; else 'exception'."""
    if is_wrapper(t):
        return "exception"      # the wrapper is restored as a synthetic exception class of that name - nothing is looked up
    kind, obj = resolve(t["t"][0], t["t"][1])
    if kind == "object" and (traps.is_unexecuted_module(obj) or not (isinstance(obj, type) and issubclass(obj, BaseException))):
        return "security"
    for k in ("cause", "context"):
        if t.get(k) and expect_tree(t[k]) == "security":
            return "security"
    return "exception"


def check_loaded(t: Dict[str, Any], loaded: Any, out: Outcome, path: str) -> None:
    kind, obj = resolve(t["t"][0], t["t"][1])
    if not isinstance(loaded, BaseException):
        out.add("C20.a", f"{path}: loaded {type(loaded).__name__}, not an exception")
        return
    if is_wrapper(t):
        tt = type(loaded)
        if not (issubclass(tt, Exception) and tt.__name__ == t["t"][1] and tt.__mro__[1] is Exception and tt.__module__ == t["t"][0]):
            out.add("C20.d", f"{path}: pickle-style wrapper for {t['t']} restored as {tt.__module__}.{tt.__name__} (bases {[b.__name__ for b in tt.__mro__[1:3]]}), "
                             f"expected a synthetic Exception subclass of that name")
        return
    if kind in ("unresolved", "nomodule"):
        want_mod = "taskiq.serialization" if kind == "nomodule" else "taskiq.exceptions"
        tt = type(loaded)
        if not (issubclass(tt, Exception) and tt.__name__ == t["t"][1] and tt.__module__ == want_mod and tt.__mro__[1] is Exception):
            if True:  # a synthetic Exception subclass accepts any arguments: no generic fallback is possible here
                out.add("C20.d", f"{path}: unresolvable {t['t']} loaded as {tt.__module__}.{tt.__name__}, expected a synthetic Exception subclass named {t['t'][1]!r}")
    else:
        if type(loaded) is not obj and type(loaded) is not Exception:
            out.add("C20.e", f"{path}: {t['t']} resolves to exception class {obj.__name__} but loaded {type(loaded).__module__}.{type(loaded).__name__}")
    for k, attr in (("cause", "__cause__"), ("context", "__context__")):
        if t.get(k):
            sub = getattr(loaded, attr)
            if sub is None:
                out.add("C20.e", f"{path}: nested {k} missing on the loaded error")
            else:
                check_loaded(t[k], sub, out, path + "/" + k)


def _has_wrapper(t: Dict[str, Any]) -> bool:
    return is_wrapper(t) or any(t.get(k) and _has_wrapper(t[k]) for k in ("cause", "context"))


def load(payload: Any, entry: str) -> Any:
    if entry == "result_json" and not isinstance(payload, dict):
        entry = "result"
    if entry == "function":
        return exception_to_python(payload)
    if entry == "result":
        r = TaskiqResult.model_validate({"is_err": True, "return_value": None, "execution_time": 0.1, "error": payload})
        return r.error
    import json

    r = TaskiqResult.model_validate_json(json.dumps({"is_err": True, "return_value": None, "execution_time": 0.1, "error": payload}))
    return r.error


def run_tree(tree: Dict[str, Any], entry: str, out: Outcome) -> str:
    traps.reset()
    before = set(sys.modules)
    payload = build_tree(tree)
    if entry == "result_json" and _has_wrapper(tree):
        entry = "result"      # wrapper objects only exist in pickle-encoded results, not in JSON text
    exp = expect_tree(tree)
    outcome = "?"
    try:
        loaded = load(payload, entry)
        outcome = "exception"
    except SecurityError:
        outcome = "security"
    except (pydantic.ValidationError, ValueError) as e:
        outcome = "validation"
        # the security error may be wrapped by pydantic when raised inside the field validator
        if "SecurityError" in type(e).__name__ or "Expected an exception class" in short(e, 2000):
            outcome = "security"
    except BaseException as e:  # noqa: BLE001
        out.add("C20.a", f"[{entry}] loading {short(tree, 200)} raised {type(e).__name__}: {short(e, 200)}")
        outcome = "other"
    if traps.CALLS:
        out.add("C20.b", f"[{entry}] loading {short(tree, 200)} called/instantiated trap(s) {traps.CALLS[:4]}")
    after = set(sys.modules)
    if after != before or traps.marker():
        out.add("C20.c", f"[{entry}] loading {short(tree, 200)} imported {sorted(after - before)[:4]} (marker={traps.marker()})")
        for m in after - before:
            sys.modules.pop(m, None)
    if outcome == "exception":
        if exp == "security":
            out.add("C20.a", f"[{entry}] {short(tree, 200)} names a non-exception but loading succeeded with {short(loaded, 100)}")
        else:
            check_loaded(tree, loaded, out, "root")
    elif outcome == "security" and exp != "security":
        out.add("C20.e", f"[{entry}] {short(tree, 200)} names only exception classes / unresolvable names but loading was refused")
    traps.reset()
    return outcome


def run_case(case: Dict[str, Any]) -> Outcome:
    out = Outcome()
    out.clauses_checked = ["C20.a", "C20.b", "C20.c", "C20.d", "C20.e"]
    if "tree" in case:
        oc = run_tree(case["tree"], case["entry"], out)

        def walk(t: Dict[str, Any], d: int) -> Iterable[Any]:
            yield t, d
            for k in ("cause", "context"):
                if t.get(k):
                    yield from walk(t[k], d + 1)

        nodes = list(walk(case["tree"], 0))
        nonexc = any(resolve(t["t"][0], t["t"][1])[0] == "object" and expect_tree({"t": t["t"]}) == "security" for t, d in nodes)
        deep = any(d >= 1 for t, d in nodes)
        out.nontrivial = bool(nonexc or deep)
        out.classes = ["outcome=" + oc] + [c for c, f in (("non_exception_target", nonexc), ("nested", deep),
                                                         ("unloaded_module", any(t["t"][0] not in sys.modules and t["t"][0] is not None for t, d in nodes))) if f]
        return out
    m, n = case["module"], case["name"]
    if (m, n) in DENY:
        out.classes = ["deny_listed"]
        out.counters = {"deny_listed": 1}
        return out
    node = {"t": [m, n], "args": case["args"]}
    tree = node
    for _ in range(case["depth"]):
        outer = {"t": ["builtins", "ValueError"], "args": ["outer"]}
        outer["cause" if case["via"] == "cause" else "context"] = tree
        tree = outer
    oc = run_tree(tree, "function" if case["depth"] != 2 else "result", out)
    kind, obj = resolve(m, n)
    nonexc = kind == "object" and not (isinstance(obj, type) and issubclass(obj, BaseException))
    out.nontrivial = bool(nonexc or case["depth"] >= 1)
    out.classes = ["outcome=" + oc, f"depth={case['depth']}"] + (["non_exception_target"] if nonexc else ["exception_class_target"])
    return out


SELFTEST_CASES = [{"module": "os", "name": "getcwd", "depth": 1, "via": "cause", "args": [PROBE_ARG]},
                  {"tree": {"t": ["vt_trapmod", "func"], "args": [1], "suppress": False}, "entry": "result"}]


# ---------------------------------------------------------------- histories: loads interleaved with module (un)loading
#
# A single load is decided by the current state of sys.modules; anything the loader remembers between loads (memoised
# verdicts, cached lookups) can make a later load disagree with that state.  Each case uses module names of its own,
# so cases do not influence each other and a replay in a fresh process behaves the same.

import types as _types

_HCOUNT = [0]


def _define_trap_module(name: str) -> None:
    m = _types.ModuleType(name)

    def fire(*a: Any, **k: Any) -> Any:
        traps.CALLS.append(name + ".fire")
        return ValueError("x")

    class Holder:
        def __init__(self, *a: Any, **k: Any) -> None:
            traps.CALLS.append(name + ".Holder")

    Exc = type("Exc", (Exception,), {"__module__": name})
    Holder.__module__ = name
    m.fire, m.Holder, m.Exc = fire, Holder, Exc  # type: ignore[attr-defined]
    sys.modules[name] = m


def history_cases() -> Any:
    typ = st.sampled_from(["Exc", "fire", "Holder", "nope", "@fire", "@Holder", "@Exc"])   # "@x": module None, type "<module>.x"
    load = st.fixed_dictionaries({"op": st.just("load"), "m": st.integers(0, 1), "type": typ, "nest": st.sampled_from([0, 0, 1]),
                                  "entry": st.sampled_from(["function", "result"])})
    other = st.fixed_dictionaries({"op": st.sampled_from(["unload", "define"]), "m": st.integers(0, 1)})
    return st.fixed_dictionaries({"loaded0": st.tuples(st.booleans(), st.booleans()).map(list),
                                  "ops": st.lists(st.one_of(load, load, load, other), min_size=2, max_size=10)})


def run_history(case: Dict[str, Any]) -> Outcome:
    out = Outcome()
    out.clauses_checked = ["C20.a", "C20.b", "C20.c", "C20.d", "C20.e"]
    _HCOUNT[0] += 1
    names = [f"vt_c20h{_HCOUNT[0]}_{i}" for i in range(2)]
    try:
        for i, n in enumerate(names):
            if case["loaded0"][i]:
                _define_trap_module(n)
        changed_after_load = False
        loads = 0
        for op in case["ops"]:
            n = names[op["m"]]
            if op["op"] == "unload":
                sys.modules.pop(n, None)
                changed_after_load = changed_after_load or loads > 0
            elif op["op"] == "define":
                _define_trap_module(n)
                changed_after_load = changed_after_load or loads > 0
            else:
                t = op["type"]
                node: Dict[str, Any] = {"t": [None, n + "." + t[1:]] if t.startswith("@") else [n, t], "args": ["x"]}
                tree = node if not op["nest"] else {"t": ["builtins", "ValueError"], "args": ["outer"], "cause": node}
                run_tree(tree, op["entry"], out)
                loads += 1
                if out.violations:
                    break
        out.nontrivial = bool(changed_after_load and loads >= 2)
        out.classes = ["history"] + (["module_state_changed_between_loads"] if changed_after_load else [])
    finally:
        for n in names:
            sys.modules.pop(n, None)
        traps.reset()
    return out


_parts_single = parts
_run_single = run_case


def parts(tier: str) -> List[Part]:  # type: ignore[no-redef]
    ps = _parts_single(tier)
    if tier == "thorough":
        ps.append(Part("histories", "given", shards=4, examples=10000, strategy=history_cases, soft_deadline_s=1200))
    else:
        ps.append(Part("histories", "given", shards=2, examples=1500, strategy=history_cases, soft_deadline_s=100))
    return ps


def run_case(case: Dict[str, Any]) -> Outcome:  # type: ignore[no-redef]
    if "ops" in case:
        return run_history(case)
    return _run_single(case)


SELFTEST_CASES.append({"loaded0": [True, False], "ops": [{"op": "load", "m": 0, "type": "@fire", "nest": 0, "entry": "function"},
                                                         {"op": "load", "m": 0, "type": "fire", "nest": 1, "entry": "result"}]})
