"""C18 - failure budget, reload and shutdown semantics of the process manager."""
from __future__ import annotations

from typing import Any, Dict, List

from hypothesis import strategies as st

from vt.core.engine import Outcome, Part
from vt.harness import procman
from vt.props import pm_common as pc
from vt.props.c17 import QUICK_BOUNDS, THOROUGH_BOUNDS

PID = "C18"
RULE = (
    "Same two sub-spaces as C17 (exhaustive enumeration of tick-boundary histories for W=1,2 to depth 3 and W=3 to "
    "depth 2 [thorough 4/3] x max_fails in {-1,0,1,2,3} x start-up deaths; Hypothesis histories of 3-40 ticks with "
    "repeated and mid-tick signals). Oracle: (a) a small reference model written from the statement (unexpected exits "
    "count toward max_fails iff max_fails >= 1; reload-all restarts each slot once per tick for free; a shutdown signal "
    "ends the manager with the success status) must agree with the real ProcessManager on the outcome (running / "
    "return value), on the tick at which it returns and on the processes started in that last tick (those queued before the ending action, none after it) - for all histories without mid-tick signals; (b) in a tick in "
    "which a reload-all is handled every slot is restarted exactly once, and never twice in any tick; (c) on "
    "SIGINT/SIGTERM: os.kill targets are current workers only, each at most once, never an already reaped pid, every "
    "live worker is signalled, no process is started afterwards, the manager returns None and raises nothing. "
    "Non-trivial: as for C17."
)
ASSUMPTIONS = ["fake OS (see C17); os.kill on a reaped pid raises ProcessLookupError as on POSIX",
               "mid-tick signal histories are checked against the invariants (b), (c) only, not against the model"]


def parts(tier: str) -> List[Part]:
    if tier == "thorough":
        return [Part("enumerated", "enum", shards=16, examples=0, enumerate=lambda s, n: pc.enumerate_cases(THOROUGH_BOUNDS, s, n),
                     exhaustive=True, soft_deadline_s=3000),
                Part("generated", "given", shards=8, examples=20000, strategy=lambda: pc.histories(60), soft_deadline_s=1500),
                Part("hosted", "given", shards=4, examples=1500, strategy=pc.hosted_histories, soft_deadline_s=900)]
    return [Part("enumerated", "enum", shards=12, examples=0, enumerate=lambda s, n: pc.enumerate_cases(QUICK_BOUNDS, s, n),
                 exhaustive=True, soft_deadline_s=200),
            Part("generated", "given", shards=4, examples=1500, strategy=pc.histories, soft_deadline_s=100),
            Part("hosted", "given", shards=2, examples=120, strategy=pc.hosted_histories, soft_deadline_s=100)]


def run_case(case: Dict[str, Any]) -> Outcome:
    out = Outcome()
    W, mf = case["W"], case["mf"]
    res = (procman.run_manager_hosted if case.get("hosted") else procman.run_manager)(W, mf, case["h"], case["sd"], case.get("slow", ()), pidpool=case.get("pidpool", 0))
    an = pc.analyse(W, mf, res, out, "C18")
    out.clauses_checked = ["C18.b", "C18.c"]
    if res["status"] == "returned" and res["ret"] == -1 and mf < 1:
        out.add("C18.a", f"manager returned the failure status with max_fails={mf}")
    if res["status"] == "raised" and not an["kills"]:
        out.add("C18.a", f"ProcessManager.start() raised {res['exc']}")
    if not pc.has_mid(case):
        out.clauses_checked.append("C18.a")
        m = pc.model(W, mf, case["h"], case["sd"])
        got = (res["status"], res["ret"], res["ticks_used"] if res["status"] != "running" else None)
        exp = (m["status"], m["ret"], m["tick"] if m["status"] != "running" else None)
        if res["status"] == "raised":
            pass  # reported above / by (c)
        elif got != exp:
            out.add("C18.a", f"W={W} max_fails={mf}: manager {got[0]} ret={got[1]!r} at tick {got[2]}, reference model "
                             f"{exp[0]} ret={exp[1]!r} at tick {exp[2]}")
        else:
            # (b) reload-all ticks: every slot exactly once
            tick = 0
            per: Dict[int, Dict[int, int]] = {}
            for e in res["trace"]:
                if e[0] == "tick":
                    tick = e[1]
                elif e[0] == "start" and tick > 0:
                    per.setdefault(tick, {})
                    per[tick][e[1]] = per[tick].get(e[1], 0) + 1
            if m["status"] == "returned":
                # what was queued BEFORE the action that ends the manager is still handled, nothing after it
                got_final = sorted(s_ for s_, n_ in per.get(m["tick"], {}).items() for _ in range(n_))
                if got_final != m["final_starts"]:
                    out.add("C18.c" if m["ret"] is None else "C18.a",
                            f"tick {m['tick']} (the manager returns {m['ret']!r} in it): processes started for slots {got_final}, the reference model "
                            f"starts {m['final_starts']} before the ending action is reached and none after it")
            for tk, slots in m["reload_ticks"].items():
                if m["status"] == "returned" and m["tick"] == tk:
                    continue
                got_slots = per.get(tk, {})
                if sorted(got_slots) != list(range(W)) or any(v != 1 for v in got_slots.values()):
                    out.add("C18.b", f"tick {tk}: reload-all handled but restarts per slot = {got_slots} (expected each of {W} slots once)")
    cl = pc.classify(case, res, an)
    out.nontrivial = bool(cl)
    out.classes = cl + [f"mf={mf}", "status=" + res["status"] + ("" if res["status"] != "returned" else f":{res['ret']}")]
    out.trace = pc.brief(res["trace"])
    out.counters = {"ticks": res["ticks_used"], "kills_checked": len(an["kills"])}
    return out


SELFTEST_CASES = [{"W": 2, "mf": 2, "h": [{"die": [0], "sig": []}, {"die": [], "sig": ["HUP"]}, {"die": [1], "sig": ["TERM"]}], "sd": []}]


# ---------------------------------------------------------------- CLI wiring: --max-fails / --workers reach the manager's arguments

from vt.harness import cliwire as _cliwire
from taskiq.cli.worker.args import WorkerArgs as _WorkerArgs

_parts_core = parts
_run_core = run_case


def parts(tier: str) -> List[Part]:  # type: ignore[no-redef]
    ps = _parts_core(tier)
    ps.append(Part("cli_wiring", "given", shards=1, examples=1500 if tier == "thorough" else 150,
                   strategy=lambda: _cliwire.FLAGS.map(lambda f: {"flags": f}), soft_deadline_s=300))
    return ps


def run_case(case: Dict[str, Any]) -> Outcome:  # type: ignore[no-redef]
    if "flags" not in case:
        return _run_core(case)
    out = Outcome()
    out.clauses_checked = ["C18.a"]
    f = case["flags"]
    try:
        args = _WorkerArgs.from_cli(_cliwire.argv_of(f))
        exp_mf = f["max_fails"] if f.get("max_fails") is not None else -1
        exp_w = f["workers"] if f.get("workers") is not None else 2
        if args.max_fails != exp_mf or type(args.max_fails) is not int:
            out.add("C18.a", f"--max-fails {f.get('max_fails')} parsed as {args.max_fails!r}, expected {exp_mf}")
        if args.workers != exp_w:
            out.add("C18.a", f"--workers {f.get('workers')} parsed as {args.workers!r}, expected {exp_w}")
    except BaseException as e:  # noqa: BLE001
        out.add("C18.a", f"parsing {_cliwire.argv_of(f)[3:]} failed: {type(e).__name__}: {e}")
    out.nontrivial = f.get("max_fails") is not None
    out.classes = ["cli_wiring"]
    return out


# ---------------------------------------------------------------- the command's exit status is the manager's status
#
# "exits with the failure status exactly when ..." is observed by whoever started `taskiq worker`: run_worker() must hand
# on what ProcessManager.start() returned - with and without --reload (a file observer that has to be stopped afterwards).


def status_cases() -> Any:
    return st.fixed_dictionaries({"cli_status": st.just(True), "reload": st.booleans(), "status": st.sampled_from([None, -1, -1]),
                                  "observer_alive": st.booleans(), "workers": st.integers(1, 3), "via": st.sampled_from(["run_worker", "cmd"])})


def run_status_case(c: Dict[str, Any]) -> Outcome:
    import taskiq.cli.worker.run as wr
    from taskiq.cli.worker.args import WorkerArgs

    out = Outcome()
    out.clauses_checked = ["C18.a"]
    seen: Dict[str, Any] = {}

    class FakeObserver:
        def __init__(self) -> None:
            self.alive = False
            self.stopped = 0

        def start(self) -> None:
            self.alive = True

        def is_alive(self) -> bool:
            return self.alive and c["observer_alive"]

        def stop(self) -> None:
            self.stopped += 1
            self.alive = False

        def join(self, timeout: Any = None) -> None:
            return None

        def schedule(self, *a: Any, **k: Any) -> None:
            return None

    class StubManager:
        def __init__(self, args: Any, worker_function: Any = None, observer: Any = None, **kw: Any) -> None:
            seen["observer"] = observer
            seen["workers"] = args.workers

        def start(self) -> Any:
            return c["status"]

    saved = (wr.ProcessManager, wr.Observer)
    wr.ProcessManager, wr.Observer = StubManager, FakeObserver  # type: ignore[misc,assignment]
    try:
        args = WorkerArgs(broker="x:y", modules=[], workers=c["workers"], reload=c["reload"], configure_logging=False)
        if c["via"] == "cmd":
            from taskiq.cli.worker.cmd import WorkerCMD

            flags = ["x:y", "--workers", str(c["workers"]), "--no-configure-logging"] + (["--reload"] if c["reload"] else [])
            got = WorkerCMD().exec(flags)
        else:
            got = wr.run_worker(args)
    except BaseException as e:  # noqa: BLE001
        out.add("C18.a", f"the worker command failed with {type(e).__name__}: {e} (reload={c['reload']})")
        return out
    finally:
        wr.ProcessManager, wr.Observer = saved  # type: ignore[misc]
    if got != c["status"] or type(got) is not type(c["status"]):
        out.add("C18.a", f"the process manager ended with status {c['status']!r} but the worker command ({c['via']}, reload={c['reload']}, observer alive at the end={c['observer_alive']}) "
                         f"returned {got!r}: the failure status is lost / invented on the way out")
    out.nontrivial = bool(c["reload"] and c["status"] == -1)
    out.classes = ["cli_status", "via=" + c["via"]] + (["reload"] if c["reload"] else []) + (["failure_status"] if c["status"] == -1 else [])
    return out


_parts_core3, _run_core3 = parts, run_case


def parts(tier: str) -> List[Part]:  # type: ignore[no-redef]
    return _parts_core3(tier) + [Part("cli_status", "given", shards=1, examples=600 if tier == "thorough" else 100, strategy=status_cases, soft_deadline_s=300)]


def run_case(case: Dict[str, Any]) -> Outcome:  # type: ignore[no-redef]
    return run_status_case(case) if case.get("cli_status") else _run_core3(case)
