"""C07 - the stored result faithfully reflects the outcome of the execution."""
from __future__ import annotations

import math
from typing import Any, Dict, List

from hypothesis import strategies as st

from vt.core.engine import Outcome, Part, short
from vt.harness import worker as wh
from vt.props import common as cm

PID = "C07"
RULE = (
    "Hypothesis-generated executions: 1-7 messages for sync/async task functions whose outcome is scripted - return "
    "a generated JSON-like value or an arbitrary object (object(), set, complex, lambda, bytes, tuple, exception "
    "instance, type, nan), raise one of ValueError / custom Exception / KeyboardInterrupt / SystemExit / "
    "CancelledError / custom BaseException, signal no-result, or run for dur vs a `timeout` label given "
    "as int, float or str (below / equal / above); typed user labels, plus labels (optionally the timeout label itself) added after the client computed the label types - as a pre_send middleware or a foreign producer adds them - which travel untyped; result-backend failures on a generated subset "
    "of saves; wall-clock steps (backwards and forwards) while a task runs; messages that re-use the task id of an earlier message (redelivery); A in 1..3. Oracle on what the recording result backend receives: #set_result per task id (0 for "
    "no-result, else 1), is_err / return_value / type(error) as scripted (timeout => TimeoutError and the body is "
    "cancelled at enter+timeout; equal => either), result.labels == the message's typed labels, and after a failed "
    "save the message is still acked and every later message processed. "
    "Non-trivial: an outcome other than plain return, or a backend failure followed by >=1 more message."
    " Part 'sync_pool': sync task functions executed through a REAL ThreadPoolExecutor on a real event loop (1-4 messages, outcomes return / ValueError / KeyError / custom Exception / StopIteration (bare, with a value, from next() on an empty iterator) / StopAsyncIteration / KeyboardInterrupt / SystemExit / custom BaseException / RecursionError / TimeoutError / no-result); completion is awaited with barrier jobs posted to the single pool thread, never with a wall-clock limit; oracle: the execution completes, exactly one result with is_err and the raised class (a StopIteration may arrive as RuntimeError caused by it, as Python itself does for coroutines)."
    " Task outcomes include raising taskiq's own TaskRejectedError (what Context.reject() raises): an error result must be stored for it like for any exception other than NoResultError."
)
ASSUMPTIONS = ["part sync_pool uses a real event loop and a real ThreadPoolExecutor; the main part runs on the virtual-time loop with inline sync functions", "sync tasks run inline with zero virtual duration: 'timeout on a sync task' (documented as unreliable) is not asserted",
               "virtual-time loop"]

JSONV = st.recursive(
    st.one_of(st.none(), st.booleans(), st.integers(-10**6, 10**6), st.floats(allow_nan=False, allow_infinity=False, width=32),
              st.text(max_size=6)),
    lambda ch: st.one_of(st.lists(ch, max_size=3), st.dictionaries(st.text(max_size=3), ch, max_size=3)), max_leaves=6)

LABELV = st.one_of(st.integers(-10**9, 10**9), st.text(max_size=5), st.booleans(),
                   st.floats(allow_nan=False, allow_infinity=False, width=32))


def scenario(big: bool = False) -> Any:
    def fin(d: Dict[str, Any]) -> Dict[str, Any]:
        msgs = cm.sort_msgs(d["msgs"])
        for k, m in enumerate(msgs):
            dup = m.pop("dup")
            if dup is not None and k > 0:
                m["dup_of"] = dup % k        # same task id as an earlier message: a redelivery / re-kick with the same id
                if "dup_of" in msgs[m["dup_of"]]:
                    m["dup_of"] = msgs[m["dup_of"]]["dup_of"]
        for m in msgs:
            rk = m.pop("rvkind")
            if rk == "json":
                m.pop("rvobj")
            elif rk == "obj":
                m.pop("rv")
            else:
                m.pop("rv")
                m.pop("rvobj")
            if m.get("timeout") is not None and float(m["timeout"]) <= 0 and m["kind"] != "async":
                m["timeout"] = None       # a non-positive label on a sync function is not claimed either way (its future is never "done" at once)
            if m["kind"] == "annret":
                m["out"], m["timeout"], m["dur"] = "ret", None, 0.0      # it just returns its value (declared `-> int`, whatever the value is)
            kn = m.pop("kwnames")
            if kn and m["kind"] in ("async", "sync"):
                m["kwnames"] = kn
            m["ack"] = "sync"
            if not m["clock_step"] or m["kind"] != "async":
                m.pop("clock_step")
        d["msgs"] = msgs
        d.update({"P": 1, "N": None, "W": None, "stop": None, "ends": True, "ack_type": "when_saved"})
        d["fail_saves"] = sorted(d["fail_saves"])
        d["horizon"] = cm.horizon_for(d)
        d["drain"] = 0.0
        return d

    base = cm.message(kinds=("async", "async", "async", "sync", "swapped", "annret"),
                      outs=("ret", "ret", "ret", "ValueError", "MyErr", "KeyboardInterrupt", "SystemExit", "CancelledError",
                            "MyBase", "NoResult", "EmptyBatchError", "BadStrError", "TaskRejectedError"),
                      timeouts=(None, None, 0.3, 0.35, 1, "0.3", "1", 3, "3.0", 1.5, "2.5", 0, -1, "0"), acks=("sync",), durs=cm.DURS + [2.0])
    msg = st.tuples(base, st.fixed_dictionaries({
        "rvkind": st.sampled_from(["json", "json", "obj", "default"]),
        "rv": JSONV, "rvobj": st.sampled_from(sorted(wh.OBJECTS)),
        "labels": st.dictionaries(st.sampled_from(["u1", "u2", "prio", "x-y", "Ключ"]), LABELV, max_size=3),
        "late_labels": st.dictionaries(st.sampled_from(["trace", "origin", "n"]), st.one_of(st.text(max_size=4), st.integers(-5, 5), st.booleans()), max_size=2),
        "timeout_late": st.booleans(),
        "dup": st.one_of(st.none(), st.none(), st.none(), st.none(), st.integers(0, 5)),
        "clock_step": st.sampled_from([0, 0, 0, -5.0, 3600.0, -0.5]),
        "kwnames": st.sampled_from([None, None, None, ["target"], ["args", "kwargs"], ["target", "kwargs"]]),   # the wall clock jumps while this task runs
    })).map(lambda t: {**t[0], **t[1]})
    return st.fixed_dictionaries({
        "A": st.integers(1, 5 if big else 3),
        "msgs": st.lists(msg, min_size=1, max_size=12 if big else 7),
        "fail_saves": st.sets(st.integers(0, 11 if big else 6), max_size=3),
        # persistent failures: the result of these messages can never be saved, whatever is retried; and what the backend raises
        "fail_save_ids": st.one_of(st.just([]), st.just([]), st.lists(st.integers(0, 5), max_size=2, unique=True).map(sorted)),
        "save_exc": st.sampled_from(["RuntimeError", "RuntimeError", "ConnectionError", "TimeoutError", "OSError", "ConnectionResetError", "ValueError", "BadStrError"]),
        "save_latency": st.sampled_from([0.0, 0.0, 0.05]),
        "backend_late": st.sampled_from([False, False, True]),     # backend installed after the receiver was constructed
    }).map(fin)


def parts(tier: str) -> List[Part]:
    if tier == "thorough":
        return [Part("executions", "given", shards=16, examples=12000, strategy=lambda: scenario(True), soft_deadline_s=3000)]
    return [Part("executions", "given", shards=8, examples=600, strategy=scenario, soft_deadline_s=120)]


def same(a: Any, b: Any) -> bool:
    if type(a) is not type(b):
        return False
    if isinstance(a, float):
        return (math.isnan(a) and math.isnan(b)) or a == b
    if isinstance(a, (list, tuple)):
        return len(a) == len(b) and all(same(x, y) for x, y in zip(a, b))
    if isinstance(a, dict):
        return list(a) == list(b) and all(same(a[k], b[k]) for k in a)
    if isinstance(a, BaseException):
        return a is b
    return a is b or a == b


def run_case(sc: Dict[str, Any]) -> Outcome:
    out = Outcome()
    specs = sc["msgs"]
    res = wh.run_worker(sc)
    tr = res["trace"]
    out.trace = wh.brief_trace(tr, 60)
    out.clauses_checked = ["C07.a", "C07.b", "C07.c", "C07.d"]
    if res["listen_exc"] or res["deadlock"] or not res["returned"]:
        out.add("C07.d", f"listen() did not finish normally: exc={res['listen_exc']} deadlock={res['deadlock']} returned={res['returned']}")
    rb = res["backend"]
    by_id: Dict[int, List[Any]] = {}
    for tid, r in rb.results:
        by_id.setdefault(wh.msg_index(tid), []).append(r)
    pm = wh.per_message(tr)
    taken = [m for t, k, m, kw in tr if k == "take"]
    if len(taken) != len(specs):
        out.add("C07.d", f"only {len(taken)} of {len(specs)} messages taken")
    nontriv = False
    classes = set()
    gid_of = {i: sp.get("dup_of", i) for i, sp in enumerate(specs)}
    members: Dict[int, List[int]] = {}
    for i, g in gid_of.items():
        members.setdefault(g, []).append(i)
    dup_groups = {g: m for g, m in members.items() if len(m) > 1}
    for i in taken:
        sp = specs[i]
        evs = pm.get(i, [])
        kinds = [e[2] for e in evs]
        to = sp.get("timeout")
        is_async = sp["kind"] == "async"
        timed_out = wh.timeout_verdict(sp) == "timeout"
        tie = wh.timeout_verdict(sp) == "tie"
        if "enter" not in kinds and not (is_async and to is not None and float(to) <= 0):
            # (a timeout label <= 0 expires before the coroutine gets to run at all: the stored result is the timeout error all the same)
            out.add("C07.d", f"message {i} was not executed; events={kinds}")
            continue
        if kinds.count("ack") != 1:
            out.add("C07.d", f"message {i} acked {kinds.count('ack')} times (when_saved); events={kinds}")
        if gid_of[i] in dup_groups:
            continue    # executions sharing a task id (redelivery) are compared as a group below
        rs = by_id.get(i, [])
        if tie:
            classes.add("tie")
            if len(rs) > 1:
                out.add("C07.a", f"message {i}: {len(rs)} results stored")
            continue
        exp_nores = sp["out"] == "NoResult" and not timed_out
        if sp["out"] != "ret" or timed_out:
            nontriv = True
        if exp_nores:
            classes.add("no_result")
            if rs:
                out.add("C07.a", f"message {i} signalled no-result but {len(rs)} result(s) were stored")
            continue
        if len(rs) != 1:
            out.add("C07.a", f"message {i}: {len(rs)} results stored, expected exactly 1 (outcome {sp['out']}, timed_out={timed_out})")
            if not rs:
                continue
        r = rs[0]
        if timed_out:
            classes.add("timeout")
            if not r.is_err or type(r.error) is not TimeoutError:
                out.add("C07.b", f"message {i} exceeded timeout {to!r} (dur {sp['dur']}) but stored is_err={r.is_err} error={short(r.error, 80)}")
            t_enter = next((e[1] for e in evs if e[2] == "enter"), None)
            t_exit = next((e[1] for e in evs if e[2] == "exit"), None)
            if t_enter is None:
                pass        # label <= 0: expired before the body could start
            elif t_exit is None or abs(t_exit - (t_enter + max(0.0, float(to)))) > 1e-6:
                out.add("C07.b", f"message {i}: body not cancelled at enter+timeout ({t_enter}+{to}); exit at {t_exit}")
        elif sp["out"] == "ret":
            exp = wh.ret_value(sp, i)
            if r.is_err or r.error is not None:
                out.add("C07.b", f"message {i} returned normally but stored is_err={r.is_err} error={short(r.error, 80)}")
            elif not same(r.return_value, exp):
                out.add("C07.b", f"message {i}: stored return_value {short(r.return_value, 120)} != returned {short(exp, 120)}")
        else:
            classes.add("raise:" + sp["out"])
            if not r.is_err or type(r.error) is not wh.EXC[sp["out"]]:
                out.add("C07.b", f"message {i} raised {sp['out']} but stored is_err={r.is_err} error type={type(r.error).__name__}")
            if r.return_value is not None:
                out.add("C07.b", f"message {i} raised but return_value={short(r.return_value, 80)}")
        exp_labels = dict(sp.get("labels") or {})
        exp_labels.update(sp.get("late_labels") or {})
        if to is not None:
            exp_labels["timeout"] = to
        got_labels = dict(r.labels)
        if set(got_labels) != set(exp_labels) or not all(same(got_labels[k_], exp_labels[k_]) for k_ in exp_labels):   # key order is not part of the property
            out.add("C07.c", f"message {i}: result.labels {short(dict(r.labels), 200)} != message labels {short(exp_labels, 200)}")
    for g, mem in sorted(dup_groups.items()):
        classes.add("duplicate_task_id")
        nontriv = True
        exp = []
        undecided = False
        for i in mem:
            sp = specs[i]
            to = sp.get("timeout")
            is_async = sp["kind"] == "async"
            if i not in taken:
                undecided = True
            elif wh.timeout_verdict(sp) == "tie":
                undecided = True
            elif wh.timeout_verdict(sp) == "timeout":
                exp.append((True, "TimeoutError"))
            elif sp["out"] == "NoResult":
                pass
            elif sp["out"] == "ret":
                exp.append((False, None))
            else:
                exp.append((True, wh.EXC[sp["out"]].__name__))
        if undecided:
            continue
        got = [(bool(r.is_err), type(r.error).__name__ if r.error is not None else None) for r in by_id.get(g, [])]
        if sorted(got, key=repr) != sorted(exp, key=repr):
            out.add("C07.a", f"{len(mem)} executions share task id id{g} (redelivery): stored results {got}, expected one per execution: {exp}")
    sf = [n for n, e in enumerate(tr) if e[1] == "save_failed"]
    if sf:
        classes.add("save_failure")
        if any(e[1] == "enter" for e in tr[sf[0]:]):
            nontriv = True
            classes.add("execution_after_save_failure")
    out.nontrivial = nontriv
    out.classes = sorted(classes)
    return out


# ---------------------------------------------------------------------------------------------------------------
# sync task functions through a REAL thread pool (the virtual-time harness runs them inline): the outcome has to travel
# from the pool's future into the event loop's future.  No wall-clock limit decides anything here: completion is
# awaited by posting barrier jobs to the single pool thread (FIFO behind the task's job) and yielding to the loop.

POOL_OUTS = ["ret", "ret", "ValueError", "KeyError", "MyErr", "StopIteration", "StopIteration_value", "StopAsyncIteration",
             "KeyboardInterrupt", "SystemExit", "MyBase", "NoResult", "RecursionError", "TimeoutError", "next_on_empty"]


def pool_cases() -> Any:
    return st.fixed_dictionaries({"pool": st.just(True), "outs": st.lists(st.sampled_from(POOL_OUTS), min_size=1, max_size=4),
                                  "A": st.integers(1, 2), "process_via": st.sampled_from(["callback", "callback", "inmemory"])})


class _PoolMyErr(Exception):
    pass


class _PoolMyBase(BaseException):
    pass


def _pool_raise(kind: str, k: int) -> Any:
    from taskiq.exceptions import NoResultError

    if kind == "ret":
        return {"v": k}
    if kind == "next_on_empty":
        return next(iter([]))            # the everyday way a plain function ends up raising StopIteration
    if kind == "StopIteration_value":
        raise StopIteration({"v": k})
    exc = {"ValueError": ValueError, "KeyError": KeyError, "MyErr": _PoolMyErr, "StopIteration": StopIteration, "StopAsyncIteration": StopAsyncIteration,
           "KeyboardInterrupt": KeyboardInterrupt, "SystemExit": SystemExit, "MyBase": _PoolMyBase, "NoResult": NoResultError,
           "RecursionError": RecursionError, "TimeoutError": TimeoutError}[kind]
    raise exc() if kind == "NoResult" else exc("boom")      # the no-result signal takes no arguments


def run_pool_case(c: Dict[str, Any]) -> Outcome:
    import asyncio
    from concurrent.futures import ThreadPoolExecutor

    from taskiq import InMemoryBroker
    from taskiq.kicker import AsyncKicker
    from taskiq.receiver import Receiver
    from taskiq.result_backends.dummy import DummyResultBackend  # noqa: F401  (import check only)
    from taskiq.brokers.inmemory_broker import InmemoryResultBackend

    out = Outcome()
    out.clauses_checked = ["C07.a", "C07.b", "C07.d"]
    outs = c["outs"]
    saves: List[Any] = []
    hung: List[int] = []
    loop_errors: List[str] = []

    class RB(InmemoryResultBackend):
        async def set_result(self, task_id: str, result: Any) -> None:
            saves.append((task_id, result))
            await super().set_result(task_id, result)

    async def main() -> None:
        ex = ThreadPoolExecutor(max_workers=1)
        try:
            b = InMemoryBroker()
            b.result_backend = RB()

            def stask(k: int) -> Any:
                return _pool_raise(outs[k], k)

            stask.__module__ = __name__
            b.register_task(stask, task_name="pool.stask")
            r = Receiver(b, executor=ex, max_async_tasks=c["A"], run_startup=False)
            for k in range(len(outs)):
                m = b.formatter.dumps(AsyncKicker("pool.stask", b, {}).with_task_id(f"id{k}")._prepare_message(k)).message
                t = asyncio.ensure_future(r.callback(m))
                for _ in range(25):
                    if t.done():
                        break
                    await asyncio.get_running_loop().run_in_executor(ex, int)      # barrier: the pool thread is past the task's job
                    await asyncio.sleep(0)
                if not t.done():
                    hung.append(k)
                    t.cancel()
                    try:
                        await t
                    except BaseException:  # noqa: BLE001
                        pass
                elif t.exception() is not None:
                    out.add("C07.d", f"processing message {k} (sync function, outcome {outs[k]}) raised {type(t.exception()).__name__}: {t.exception()}")
        finally:
            ex.shutdown(wait=True)

    loop = asyncio.new_event_loop()
    loop.set_exception_handler(lambda l, ctx: loop_errors.append(str(ctx.get("exception") or ctx.get("message"))))
    try:
        loop.run_until_complete(main())
    finally:
        loop.close()
    for k in hung:
        out.add("C07.a", f"message {k}: the sync task function finished in the pool thread (outcome {outs[k]}) but its execution never completed - no result, the slot "
                         f"is held forever ({short(loop_errors[:1], 160)})")
    for k, o in enumerate(outs):
        if k in hung:
            continue
        mine = [r_ for tid, r_ in saves if tid == f"id{k}"]
        if o == "NoResult":
            if mine:
                out.add("C07.a", f"message {k}: a result was stored for the no-result signal")
            continue
        if len(mine) != 1:
            out.add("C07.a", f"message {k} (sync, outcome {o}): {len(mine)} results stored")
            continue
        r_ = mine[0]
        if o == "ret":
            if r_.is_err or r_.return_value != {"v": k}:
                out.add("C07.b", f"message {k}: returned {{'v': {k}}} but stored is_err={r_.is_err} value={short(r_.return_value, 80)}")
        else:
            # a StopIteration cannot cross a future: like Python itself does for coroutines (PEP 479) it may arrive as a
            # RuntimeError caused by it; every other class arrives as raised
            want = {"next_on_empty": "StopIteration", "StopIteration_value": "StopIteration", "MyErr": "_PoolMyErr", "MyBase": "_PoolMyBase"}.get(o, o)
            got = type(r_.error).__name__ if r_.error is not None else None
            ok = got == want or (want == "StopIteration" and got == "RuntimeError" and isinstance(getattr(r_.error, "__cause__", None), StopIteration))
            if not r_.is_err or not ok:
                out.add("C07.b", f"message {k}: the sync function raised {want} but the stored result has is_err={r_.is_err} error={got}")
    stopit = any(o in ("StopIteration", "StopIteration_value", "next_on_empty") for o in outs)
    out.nontrivial = bool(any(o not in ("ret", "ValueError", "KeyError") for o in outs))
    out.classes = ["real_thread_pool"] + (["stop_iteration_from_sync_function"] if stopit else []) + sorted({"pool_out=" + o for o in outs})
    out.trace = {"outs": outs, "hung": hung, "saves": len(saves)}
    return out


_base_parts, _base_run = parts, run_case


def parts(tier: str) -> List[Part]:  # type: ignore[no-redef]
    n = 1500 if tier == "thorough" else 120
    return _base_parts(tier) + [Part("sync_pool", "given", shards=4, examples=n, strategy=pool_cases, soft_deadline_s=1500 if tier == "thorough" else 100)]


def run_case(sc: Dict[str, Any]) -> Outcome:  # type: ignore[no-redef]
    return run_pool_case(sc) if sc.get("pool") else _base_run(sc)


SELFTEST_CASES = []
