"""C15 - the scheduler loop sends each due schedule once per occurrence, minute after minute."""
from __future__ import annotations

import datetime as dtm
from typing import Any, Dict, List, Optional

from hypothesis import strategies as st

from vt.core.engine import Outcome, Part, Violation
from vt.harness import clock, sched
from vt.oracles import cron
from vt.props import c13

PID = "C15"
SEC = 10**6
MIN = 60 * SEC
RULE = (
    "Hypothesis-generated scheduler runs on the virtual-time loop under a controlled wall clock: start instant with "
    "microsecond resolution (biased to :00.000000 / :59.999999 / :30), horizon 3-8 (thorough: -30) virtual minutes and, in one run of twelve, 62-130 minutes, 1-3 "
    "sources (scripted sources with stable schedule ids; optionally the real LabelScheduleSource, in half of those cases with two one-shot entries of EQUAL content), each with 0-3 cron "
    "schedules (minute-field variety, optional timedelta/zone offset, one malformed expression; a third of them created through the public kicker.schedule_by_cron / schedule_by_time API, cron ones also from CronSpec objects with int and str fields) and 0-3 one-shots "
    "with T anywhere in the horizon, biased to minute boundaries +{0, 1 us, 0.5 s, 1 s, 1 s + 1 us} and to the past; "
    "entries appear / disappear at generated poll indexes (dynamic add/remove); send latencies 0-2 s (some crossing a "
    "minute boundary: 61 s); failures injected into generated subsets of get_schedules() and kick() calls. "
    "Oracle: (a) every source is polled at start and at every minute boundary up to the horizon; (b) per minute and "
    "cron schedule listed by a non-failing poll: exactly one kick in that minute iff the independent C13 matcher says "
    "due, none otherwise; (c) per one-shot: exactly one kick, at max(T, instant of the first non-failing poll that "
    "lists it with T <= next boundary + 1 s) and not more than 1 s later - none if never listed that way; "
    "(d) the loop survives every injected failure and malformed expression. "
    "Non-trivial: a cron schedule due in some minutes and not in others, or a one-shot within 1 s of a boundary, or "
    ">=1 injected failure / latency crossing a boundary."
)
ASSUMPTIONS = [
    "scripted sources follow the documented contract: stable schedule_id, one-shot removed in post_send",
    "a kick is 'sent' at the instant broker.kick() is called; latency delays its completion only",
    "process-local zone Asia/Kathmandu (whole-minute offset), modelled consistently in the fake datetime",
]


def cron_entry(i: int) -> Any:
    mf = st.one_of(st.just("*"), st.sampled_from(["*/2", "*/3", "*/5"]), st.integers(0, 59).map(str),
                   st.tuples(st.integers(0, 29), st.integers(30, 59)).map(lambda ab: f"{ab[0]}-{ab[1]}"),
                   st.lists(st.integers(0, 59), min_size=2, max_size=4).map(lambda l: ",".join(map(str, l))),
                   st.tuples(st.integers(0, 30), st.integers(31, 59), st.integers(2, 4)).map(lambda t: f"{t[0]}-{t[1]}/{t[2]}"))
    rest = st.sampled_from(["* * * *", "* * * *", "* * * *", "*/2 * * *", "0-23 * * *", "* * * 0-6", "* 1-31 * *"])
    off = st.one_of(st.none(), st.none(), st.fixed_dictionaries({"td_us": st.sampled_from([90 * SEC, -30 * SEC, 3600 * SEC, 30 * MIN + 5, 86400 * SEC, -86400 * SEC, 7 * 86400 * SEC + 3600 * SEC])}),
                    st.fixed_dictionaries({"zone": st.sampled_from(["Asia/Kathmandu", "Europe/Berlin"])}))
    good = st.tuples(mf, rest, off).map(lambda t: {"cron": t[0] + " " + t[1], "offset": t[2]})
    bad = st.sampled_from([None, None, 1, 2, 3]).map(lambda r: {"cron": "*/5 * * *", "offset": None, "malformed": True, **({"repair_at": r} if r is not None else {})})

    # schedules created through the public API: kicker.schedule_by_cron(source, CronSpec(...)) with int or str fields
    def spec_entry(t: Any) -> Dict[str, Any]:
        fields = {"minutes": t[0], "hours": t[1], "days": "*", "months": "*", "weekdays": t[2]}
        return {"spec": fields, "cron": " ".join(str(fields[k]) for k in ("minutes", "hours", "days", "months", "weekdays")),
                "offset": t[3], "via_api": True}

    spec = st.tuples(st.one_of(st.integers(0, 59), st.sampled_from([0, 0, "*", "*/2", "0", "0-30"])),
                     st.one_of(st.just("*"), st.just("*"), st.integers(0, 23), st.sampled_from([0, "0"])),
                     st.one_of(st.just("*"), st.just("*"), st.integers(0, 6), st.sampled_from([0, "1-5"])), off).map(spec_entry)
    api_str = good.map(lambda e: {**e, "via_api": True, "offset": None})   # a plain cron string carries no offset in this API
    return st.one_of(good, good, good, good, bad, spec, spec, api_str)


def entries() -> Any:
    def one_shot(d: Dict[str, Any]) -> Dict[str, Any]:
        return d

    shot = st.fixed_dictionaries({
        "sel": st.one_of(
            st.tuples(st.just("edge"), st.integers(-1, 9), st.sampled_from([0, 1, SEC // 2, SEC - 1, SEC, SEC + 1, 2 * SEC, -1, -SEC // 2, 59 * SEC + SEC // 2])),
            st.tuples(st.just("edge"), st.integers(-1, 9), st.sampled_from([0, 1, SEC // 2, SEC, SEC + 1, -1])),
            st.tuples(st.just("free"), st.integers(-120 * SEC, 9 * MIN), st.just(0))),
        "naive": st.booleans(),
        "via_api": st.sampled_from([False, False, True]),
    })
    dyn = st.tuples(st.sampled_from([0, 0, 0, 1, 2, 3]), st.sampled_from([None, None, None, 2, 4, 6]))
    return st.tuples(st.lists(st.tuples(cron_entry(0), dyn), max_size=3), st.lists(st.tuples(shot, dyn), max_size=3))


def scenario(max_h: int = 8) -> Any:
    def fin(d: Dict[str, Any]) -> Dict[str, Any]:
        base = d["base"] // MIN * MIN + d["bsec"] * SEC + d["bus"]
        m0 = base // MIN * MIN
        H = d["horizon_min"]
        sources = []
        label_used = False
        for si, (kind, (crons, shots), fails) in enumerate(d["sources"]):
            ents = []
            if kind == "label" and label_used:
                kind = "scripted"
            if kind == "label":
                label_used = True
            for j, (c, (a, r)) in enumerate(crons):
                e = dict(c)
                e["id"] = f"c{si}_{j}"
                if kind == "label":
                    e["offset"] = None
                    e.pop("via_api", None)
                    e.pop("spec", None)
                    if e.get("malformed"):
                        e["cron"], e["malformed"] = "* * * * *", False
                else:
                    e["add_at"], e["remove_at"] = a, (r if r is None or r > a else None)
                ents.append(e)
            for j, (s, (a, r)) in enumerate(shots):
                kind_sel, k, d_us = s["sel"]
                t_off = (m0 + k * MIN + d_us - base) if kind_sel == "edge" else k
                e = {"id": f"o{si}_{j}", "t_off_us": t_off, "naive": s["naive"]}
                if kind != "label":
                    e["add_at"], e["remove_at"] = a, (r if r is None or r > a else None)
                    if s.get("via_api"):
                        e["via_api"] = True
                ents.append(e)
            if kind == "label" and d["dup_label"]:
                # entries of equal content (same time, same args): distinct schedules all the same, each must be sent
                shots_ = [e for e in ents if "t_off_us" in e]
                if shots_:
                    ents.append(dict(shots_[0]))
            sources.append({"kind": kind, "entries": ents, "fail_polls": sorted(fails) if kind != "label" else [],
                            "live_list": bool(d["live_list"]) and kind != "label", "hook_kind": d["hook_kind"] if kind != "label" else "sync", "fail_exc": d["fail_exc"]})
        r = {"base_us": base, "horizon_min": H, "sources": sources, "latencies": d["latencies"], "kick_fail": sorted(d["kick_fail"])}
        if d["dst"]:
            # the scheduler process lives in a DST zone and the run crosses one of its transitions (a few minutes before it, up to inside it)
            zone, k, before = d["dst"]
            tr = [t for t in c13.transitions(zone) if t > clock.to_us(dtm.datetime(2020, 1, 1, tzinfo=clock.UTC))]
            t_us = tr[k % len(tr)]
            shift = (t_us - before * MIN) // MIN * MIN - m0
            r["base_us"] = base + shift
            r["local_zone"] = zone
        return r

    src = st.tuples(st.sampled_from(["scripted", "scripted", "scripted", "label"]), entries(),
                    st.one_of(st.just(set()), st.just(set()), st.sets(st.integers(0, 8), max_size=3)))
    return st.fixed_dictionaries({
        "base": st.integers(clock.to_us(dtm.datetime(2024, 1, 1, tzinfo=clock.UTC)), clock.to_us(dtm.datetime(2026, 1, 1, tzinfo=clock.UTC))),
        "bsec": st.sampled_from([0, 0, 59, 59, 30, 1, 58, 13]),
        "bus": st.sampled_from([0, 0, 1, 500_000, 999_999]),
        # mostly a few minutes; one run in twelve spans more than two hours, so that hourly patterns ("M * * * *") come round again
        "horizon_min": st.one_of(*([st.integers(3, max_h)] * 11 + [st.integers(62, 130)])),
        "sources": st.lists(src, min_size=1, max_size=3),
        "latencies": st.one_of(st.just([0.0]), st.just([0.0]), st.lists(st.sampled_from([0.0, 0.0, 0.5, 1.0, 2.0, 61.0]), min_size=1, max_size=4)),
        "kick_fail": st.one_of(st.just(set()), st.just(set()), st.sets(st.integers(0, 30), max_size=5)),
        "dup_label": st.booleans(),
        "dst": st.one_of(st.none(), st.none(), st.none(), st.tuples(st.sampled_from(["Europe/Berlin", "America/New_York", "Australia/Lord_Howe"]), st.integers(0, 40), st.integers(0, 4))),
        "fail_exc": st.sampled_from(["message", "message", "bare_timeout", "bare_keyerror", "bare_conn"]),       # what a failing listing raises
        "hook_kind": st.sampled_from(["sync", "sync", "deferred", "awaitable", "future"]),     # what the scripted sources' post_send hands back
        "live_list": st.sampled_from([False, False, True]),     # scripted sources return their own list object and edit it in place in post_send
    }).map(fin)


def parts(tier: str) -> List[Part]:
    if tier == "thorough":
        return [Part("runs", "given", shards=16, examples=8000, strategy=lambda: scenario(30), soft_deadline_s=3600)]
    return [Part("runs", "given", shards=12, examples=300, strategy=scenario, soft_deadline_s=150)]


def run_case(case: Dict[str, Any]) -> Outcome:
    out = Outcome()
    out.clauses_checked = ["C15.a", "C15.b", "C15.c", "C15.d"]
    res = sched.run_sched(case)
    base = case["base_us"]
    m0 = base // MIN * MIN
    H = case["horizon_min"]
    kicks = res.get("kicks", [])
    polls = res.get("polls", {})
    info: Dict[str, Any] = {"label_oneshot_double": [], "double": []}
    if res["crashed"] or res["deadlock"]:
        out.add("C15.d", f"scheduler loop stopped: {res['loop_exc']}")
    exp_polls = [base] + [m0 + k * MIN for k in range(1, H + 1)]
    classes = set()
    for si, s in enumerate(case["sources"]):
        name = "label" if s["kind"] == "label" else f"s{si}"
        pl = polls.get(name, [])
        got = [p["t"] for p in pl]
        if got != exp_polls:
            bad = next((i for i, (g, e) in enumerate(zip(got, exp_polls)) if g != e), min(len(got), len(exp_polls)))
            out.add("C15.a", f"source {name}: poll #{bad} at {_fmt(got[bad]) if bad < len(got) else 'missing'}, expected "
                             f"{_fmt(exp_polls[bad]) if bad < len(exp_polls) else 'none'} ({len(got)} polls, expected {len(exp_polls)})")
            continue
        seen_ids = set()
        for e in s["entries"]:
            if e["id"] in seen_ids:
                continue    # duplicates are judged together with their first occurrence (multiplicity below)
            seen_ids.add(e["id"])
            mult = sum(1 for x in s["entries"] if x["id"] == e["id"])
            ks = [k for k in kicks if k["tag"] == e["id"]]
            if "cron" in e:
                due_minutes = 0
                for p in pl:
                    listed = e["id"] in p["listed"]
                    lo = p["t"] // MIN * MIN
                    inmin = [k for k in ks if lo <= k["t"] < lo + MIN]
                    if e.get("malformed") and not (e.get("repair_at") is not None and p["k"] >= e["repair_at"] and listed):
                        exp = 0
                    elif e.get("malformed"):
                        exp = 1          # repaired to "* * * * *" under the same id: due every minute from then on
                    elif not listed:
                        exp = 0
                    else:
                        exp = 1 if cron.matches(e["cron"], c13.local_of(p["t"], e.get("offset"))) else 0
                    due_minutes += exp
                    if len(inmin) != exp:
                        out.add("C15.b", f"cron {e['id']} {e['cron']!r} offset={e.get('offset')} minute {_fmt(lo)} "
                                         f"(listed={listed}, poll failed={p['failed']}): {len(inmin)} kicks at "
                                         f"{[_fmt(k['t']) for k in inmin]}, expected {exp}")
                        break
                if 0 < due_minutes < len(pl):
                    classes.add("cron_due_some_minutes")
                if e.get("malformed"):
                    classes.add("malformed_cron")
                if e.get("spec"):
                    classes.add("cronspec_via_api")
            else:
                T = base + e["t_off_us"]
                # first non-failing poll that lists it with T <= next boundary + 1 s
                sched_poll = None
                for p in pl:
                    if e["id"] in p["listed"]:
                        nb = (p["t"] // MIN + 1) * MIN
                        if T <= nb + SEC:
                            sched_poll = p
                            break
                kick_failed = any(not k["ok"] for k in ks)
                near = min((T - m0) % MIN, MIN - (T - m0) % MIN) <= SEC + 1
                if near:
                    classes.add("oneshot_near_boundary")
                if sched_poll is None:
                    if ks:
                        out.add("C15.c", f"one-shot {e['id']} T={_fmt(T)} was never listed in time but kicked at {[_fmt(k['t']) for k in ks]}")
                    continue
                due = max(T, sched_poll["t"])
                if due > exp_polls[-1] + 25 * SEC:
                    continue  # fires after the observation window
                early = [k for k in ks if k["t"] < due]
                if early:
                    out.add("C15.c", f"one-shot {e['id']} T={_fmt(T)} sent EARLY at {_fmt(early[0]['t'])} (due {_fmt(due)})")
                    continue
                if kick_failed:
                    classes.add("oneshot_kick_failed")
                    continue  # a failed send affects this schedule's occurrence; only 'not early' is demanded
                if len(ks) != mult:
                    shape = "label" if s["kind"] == "label" else "scripted"
                    if len(ks) > mult:
                        info["double"].append({"id": e["id"], "source": shape})
                    out.add("C15.c", f"one-shot {e['id']} ({shape} source, declared {mult}x) T={_fmt(T)}: {len(ks)} kicks at "
                                     f"{[_fmt(k['t']) for k in ks]} (sids {[k['sid'][:6] if k['sid'] else None for k in ks]}), expected exactly {mult} at {_fmt(due)}")
                elif max(k["t"] for k in ks) > due + SEC:
                    out.add("C15.c", f"one-shot {e['id']} (declared {mult}x) T={_fmt(T)} sent at {[_fmt(k['t']) for k in ks]}: more than 1 s after {_fmt(due)}")
                if mult > 1:
                    classes.add("equal_label_entries")
    if any(s.get("fail_polls") for s in case["sources"]) or case.get("kick_fail"):
        classes.add("injected_failure")
    if any(l > 60 for l in case.get("latencies", [])) and kicks:
        classes.add("latency_crosses_boundary")
    if any(s["kind"] == "label" for s in case["sources"]):
        classes.add("label_source")
    out.info = info
    out.nontrivial = bool(classes - {"label_source"})
    out.classes = sorted(classes) + (["horizon_over_an_hour"] if H > 60 else []) + (["process_zone_crosses_dst_transition"] if case.get("local_zone") else [])
    out.trace = {"polls": {n: [[_fmt(p["t"]), p["failed"], p["listed"]] for p in pl[:4]] for n, pl in polls.items()},
                 "kicks": [[_fmt(k["t"]), k["tag"], k["ok"]] for k in kicks[:25]]}
    out.counters = {"kicks_observed": len(kicks), "virtual_minutes": H}
    return out


def _fmt(us: int) -> str:
    return clock.from_us(us).strftime("%H:%M:%S.%f")


def known(case: Dict[str, Any], v: Violation, out: Outcome) -> Optional[str]:
    return None


# ---------------------------------------------------------------------------------------------------------------
# sources that need time to answer: polls still happen once per minute boundary and nothing is sent twice in a minute


def run_slow_case(case: Dict[str, Any]) -> Outcome:
    out = Outcome()
    out.clauses_checked = ["C15.a", "C15.b"]
    res = sched.run_sched(case)
    if res["crashed"] or res["deadlock"]:
        out.add("C15.d", f"scheduler loop stopped: {res['loop_exc']}")
        return out
    polls = list(res["polls"].values())
    n_pass = min(len(p) for p in polls)
    ent = {e["id"]: e for s_ in case["sources"] for e in s_["entries"]}
    prev_eval = None
    crossed = False
    for j in range(n_pass):
        if any("ret" not in p[j] for p in polls):
            break
        start = min(p[j]["t"] for p in polls)
        ev = max(p[j]["ret"] for p in polls)
        crossed = crossed or start // MIN != ev // MIN
        if j > 0:
            if start % MIN != 0:
                out.add("C15.a", f"poll #{j} started at {_fmt(start)}, not at a minute boundary")
            elif prev_eval is not None and start // MIN <= prev_eval // MIN:
                out.add("C15.a", f"poll #{j} started at {_fmt(start)} although the schedules of that minute had already been evaluated at {_fmt(prev_eval)} "
                                 f"(two polls for one minute)")
        prev_eval = ev
    per_min: Dict[Any, List[int]] = {}
    for k in res["kicks"]:
        if k["tag"] in ent:
            per_min.setdefault((k["tag"], k["t"] // MIN), []).append(k["t"])
    for (tag, m), ts in sorted(per_min.items()):
        if len(ts) > 1:
            out.add("C15.b", f"cron {tag} {ent[tag]['cron']!r} was sent {len(ts)} times in minute {_fmt(m * MIN)}: at {[_fmt(t) for t in ts]} "
                             f"(listing latencies {[s_['list_latency'] for s_ in case['sources']]})")
            break
    out.nontrivial = crossed
    out.classes = ["slow_sources"] + (["listing_crossed_minute_boundary"] if crossed else [])
    out.trace = {"kicks": [[_fmt(k["t"]), k["tag"]] for k in res["kicks"][:20]]}
    return out


_base_parts15, _base_run15 = parts, run_case


def parts(tier: str) -> List[Part]:  # type: ignore[no-redef]
    n = 2000 if tier == "thorough" else 120
    return _base_parts15(tier) + [Part("slow_sources", "given", shards=4, examples=n, strategy=c13.loop_runs, soft_deadline_s=1500 if tier == "thorough" else 100)]


def run_case(case: Dict[str, Any]) -> Outcome:  # type: ignore[no-redef]
    return run_slow_case(case) if case.get("loop") else _base_run15(case)


SELFTEST_CASES = []
