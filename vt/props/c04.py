"""C04 - prefetch is bounded: at most A + P + 1 unfinished messages per worker."""
from __future__ import annotations

from typing import Any, Dict, List

from hypothesis import strategies as st

from vt.core.engine import Outcome, Part
from vt.harness import worker as wh
from vt.props import common as cm

PID = "C04"
RULE = (
    "[plus a small 'cli_wiring' part: generated `taskiq worker` flag sets parsed by the real WorkerArgs.from_cli and turned into a receiver by the real start_listen(); --max-async-tasks / --max-prefetch (defaults 100 / 0) reach the receiver unchanged] "
    "Hypothesis-generated scenarios with finite A in 1..4 and P in 0..4, backlogs of 0..3*(A+P+2) ackable messages; "
    ">=50% of cases come from a saturation family (burst arrivals of >= A+P+2 messages, durations >= 1 s; in a third of "
    "them preceded by 1-3 messages whose ack callback raises, i.e. whose processing ends with an escaping exception), the rest "
    "from free arrival grids, durations 0-3 s, a few malformed/unknown messages, optional stop; a 'relisten' family in which the broker subscription breaks (listen() fails with the error) while slow tasks run and the same receiver listens again with a backlog ready. Oracle at every "
    "trace index: (#well-formed messages yielded by the broker) - (#of those whose last observable event has "
    "happened) <= A+P+1. Tightness is measured (cases reaching exactly A+P+1 / A+P). "
    "Non-trivial: the maximum reached >= A+P (bound approached) with backlog >= A+P+2."
)
ASSUMPTIONS = ["'finished' = last observable event (ack under when_saved) - an under-count of the worker's own notion, so no false alarm",
               "virtual-time loop, inline executor"]


def scenario(big: bool = False) -> Any:
    def fin(d: Dict[str, Any]) -> Dict[str, Any]:
        A, P = d["A"], d["P"]
        fam = d.pop("family")
        extra = d.pop("extra")
        msgs = d["msgs"]
        faults = d.pop("faults")
        if fam in ("burst", "faulty_burst"):
            n = A + P + 2 + extra
            durs = d.pop("burst_durs")
            t0 = d.pop("burst_at")
            pre = []
            if fam == "faulty_burst":
                # messages whose processing ends with an exception escaping the callback (the ack callback raises)
                pre = [{"kind": "async", "at": 0.0, "dur": 0.0, "out": "ret", "ack": f, "timeout": None} for f in faults]
                t0 = cm.r9(t0 + 0.6)
            bt = d.get("burst_timeout")
            # optionally every burst message carries a timeout label it exceeds, and its function needs a while (an awaited
            # clean-up in `finally`) to stop once cancelled: it is unfinished until it has really stopped
            msgs = pre + [dict({"kind": "async", "at": t0, "dur": durs[k % len(durs)], "out": "ret", "ack": "sync", "timeout": bt}, **({"cleanup": 0.4} if bt else {}))
                          for k in range(n)] + msgs[:2]
        elif fam == "relisten":
            # the broker connection breaks (listen() fails) while slow tasks are running; the SAME receiver listens again while
            # they are still running and a backlog is ready
            durs = d.pop("burst_durs")
            d.pop("burst_at")
            k = A + P + 2 + extra
            first = A + (extra % (P + 2))       # how many messages the first subscription hands over before it breaks
            msgs = [{"kind": "async", "at": 0.0, "dur": 4.0 + durs[j % len(durs)], "out": "ret", "ack": "sync", "timeout": None} for j in range(first + k)]
            d["stream_fault"], d["relisten"], d["has_stop"] = first, True, False
        else:
            d.pop("burst_durs")
            d.pop("burst_at")
            msgs = msgs[: 3 * (A + P + 2)]
        for m in msgs:
            if m["ack"] is None:
                m["ack"] = "sync"
        if d.pop("waits"):
            # the slow task functions wait for ANOTHER task's result through taskiq's client API (wait_result polling the backend)
            # instead of sleeping: such a message is unfinished - and holds its slot - just the same
            for m in msgs:
                if m["kind"] == "async" and m["dur"] and m.get("timeout") is None:
                    m["waits"] = True
        d["msgs"] = cm.sort_msgs(msgs)
        if not d.pop("has_stop"):
            d["stop"] = None
        d.pop("burst_timeout", None)
        d.update({"N": None, "W": d.pop("W"), "ends": True})
        d["horizon"] = cm.horizon_for(d, 10.0)
        d["drain"] = 0.0
        return d

    msg = cm.message(kinds=("async", "async", "async", "async", "sync", "bad", "unknown"),
                     outs=("ret", "ret", "ret", "ValueError", "NoResult"), acks=("sync", "async", "future"))
    return st.fixed_dictionaries({
        "A": st.integers(1, 7 if big else 4), "P": st.integers(0, 7 if big else 4),
        "family": st.sampled_from(["burst", "burst", "faulty_burst", "free", "relisten"]),
        "faults": st.lists(st.sampled_from(["sync_fail", "async_fail"]), min_size=1, max_size=3),
        "extra": st.integers(0, 6),
        "burst_durs": st.lists(st.sampled_from([1.0, 1.0, 2.0, 3.0, 0.35]), min_size=1, max_size=4),
        "burst_at": st.sampled_from([0.0, 0.0, 0.3, 0.45]),
        "burst_timeout": st.sampled_from([None, None, None, 0.3, "0.3"]),
        "ack_type": st.sampled_from(["when_saved", "when_saved", "when_executed", "when_received"]),
        "eager_tasks": st.sampled_from([False, False, False, True]),
        "msgs": st.lists(msg, min_size=0, max_size=30),
        "stop": cm.times(120), "has_stop": st.sampled_from([False, False, False, True]),
        "save_latency": st.sampled_from([0.0, 0.0, 0.1]),
        "waits": st.sampled_from([False, False, False, True]),
        "W": st.sampled_from([None, None, 30.0, 5.0]),          # wait_tasks_timeout configured (it only matters once a shutdown begins)
    }).map(fin)


def parts(tier: str) -> List[Part]:
    if tier == "thorough":
        return [Part("scenarios", "given", shards=16, examples=10000, strategy=lambda: scenario(True), soft_deadline_s=3000)]
    return [Part("scenarios", "given", shards=8, examples=400, strategy=scenario, soft_deadline_s=120)]


def run_case(sc: Dict[str, Any]) -> Outcome:
    out = Outcome()
    specs = sc["msgs"]
    A, P = sc["A"], sc["P"]
    res = wh.run_worker(sc)
    tr = res["trace"]
    out.trace = wh.brief_trace(tr, 50)
    out.clauses_checked = ["C04.a"]
    if res["listen_exc"] or res["deadlock"]:
        out.add("C04.a", f"listen() failed: {res['listen_exc']} deadlock={res['deadlock']}")
    last: Dict[Any, int] = {}
    for n, (t, kind, m, kw) in enumerate(tr):
        if m is not None and kind != "take":
            last[m] = n
    good = lambda m: isinstance(m, int) and m < len(specs) and wh.is_good(specs[m])
    unf = mu = 0
    where = None
    ends_at = {}
    for m, n in last.items():
        ends_at.setdefault(n, []).append(m)
    open_set = set()
    for n, (t, kind, m, kw) in enumerate(tr):
        if kind == "take" and good(m):
            open_set.add(m)
            if len(open_set) > mu:
                mu = len(open_set)
                where = (n, t, sorted(open_set))
        for mm in ends_at.get(n, ()):
            open_set.discard(mm)
    bound = A + P + 1
    if mu > bound:
        out.add("C04.a", f"{mu} messages taken-but-unfinished at t={where[1]} (trace #{where[0]}) with A={A} P={P}: bound A+P+1={bound}; open={where[2]}")
    ngood = sum(1 for sp in specs if wh.is_good(sp))
    out.nontrivial = bool(mu >= A + P and ngood >= bound + 1)
    out.classes = [f"A={A},P={P}"] + [c for c, f in (("reached_bound", mu == bound), ("reached_bound_minus_1", mu == bound - 1),
                                                     ("backlog>=bound+1", ngood >= bound + 1), ("listens_again_while_tasks_run", bool(sc.get("relisten")))) if f]
    out.counters = {"cases_reaching_A+P+1": int(mu == bound)}
    return out


SELFTEST_CASES = []



# ---------------------------------------------------------------- CLI wiring: from worker flags to the receiver
#
# --max-async-tasks / --max-prefetch (defaults 100 / 0) reach the receiver unchanged.  Flags are parsed with the real WorkerArgs.from_cli and the real start_listen() builds the receiver
# (a recording subclass whose listen() returns at once).

from vt.harness import cliwire as _cliwire

_parts_core = parts
_run_core = run_case


def parts(tier: str) -> List[Part]:  # type: ignore[no-redef]
    ps = _parts_core(tier)
    ps.append(Part("cli_wiring", "given", shards=1, examples=1500 if tier == "thorough" else 150,
                   strategy=lambda: _cliwire.FLAGS.map(lambda f: {"flags": f}), soft_deadline_s=300))
    return ps


def run_case(case: Dict[str, Any]) -> Outcome:  # type: ignore[no-redef]
    if "flags" not in case:
        return _run_core(case)
    out = Outcome()
    out.clauses_checked = ["C04.a"]
    _cliwire.check(case["flags"], ['max_async_tasks', 'max_prefetch'], "C04.a", out)
    out.nontrivial = any(case["flags"].get(k) not in (None, False) for k in case["flags"])
    out.classes = ["cli_wiring"]
    return out
