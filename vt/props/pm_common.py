"""Shared by C17 and C18: reference model, trace invariants, enumerator and strategy for the process manager."""
from __future__ import annotations

import itertools
from typing import Any, Dict, Iterable, List, Optional, Tuple

from hypothesis import strategies as st

from vt.core.engine import Outcome
from vt.harness import procman

SIGSETS: List[Tuple[str, ...]] = [(), ("HUP",), ("FC",), ("TERM",), ("INT",), ("HUP", "TERM"), ("INT", "HUP"), ("HUP", "FC")]
MF = (-1, 0, 1, 2, 3)


# ---------------------------------------------------------------- reference model (tick-boundary events only)


def model(W: int, mf: int, history: List[Dict[str, Any]], startup_deaths: Iterable[int]) -> Dict[str, Any]:
    """Written from the statement of C18: unexpected exits count toward max_fails iff max_fails >= 1; reload-all
    restarts each slot once per tick and is free; a shutdown signal ends the manager with the success status."""
    sd = set(startup_deaths)
    alive = [True] * W
    nstart = 0
    for i in range(W):
        if nstart in sd:
            alive[i] = False
        nstart += 1
    pending: List[Any] = []
    fails = 0
    reload_ticks: Dict[int, List[int]] = {}
    for t, ev in enumerate(history):
        for i in ev.get("die", ()):
            alive[i] = False
        for s in ev.get("sig", ()):
            pending.append("RA" if s in ("HUP", "FC") else "SD")
        if ev.get("burst"):
            pending.append("RA")      # any number of reload-all requests handled in one tick restarts every worker once
        restarted: List[int] = []
        q, pending = pending, []
        saw_ra = False
        while q:
            a = q.pop(0)
            if a == "RA":
                saw_ra = True
                q.extend(("R", i, True) for i in range(W))
            elif a == "SD":
                return {"status": "returned", "ret": None, "tick": t + 1, "alive": list(alive), "reload_ticks": reload_ticks,
                        "final_starts": sorted(restarted)}
            else:
                _, i, free = a
                if not free and mf >= 1:
                    fails += 1
                    if fails >= mf:
                        return {"status": "returned", "ret": -1, "tick": t + 1, "alive": list(alive), "reload_ticks": reload_ticks,
                                "final_starts": sorted(restarted)}
                if i in restarted:
                    continue
                alive[i] = nstart not in sd
                nstart += 1
                restarted.append(i)
        if saw_ra:
            reload_ticks[t + 1] = sorted(restarted)
        for i in range(W):
            if not alive[i]:
                pending.append(("R", i, False))
    return {"status": "running", "ret": None, "tick": len(history), "alive": list(alive), "reload_ticks": reload_ticks}


# ---------------------------------------------------------------- analysis of the fake-OS trace


def analyse(W: int, mf: int, res: Dict[str, Any], out: Outcome, want: str) -> Dict[str, Any]:
    """Adds C17.* (want='C17') or C18.b/c (want='C18') violations from invariants over the trace."""
    tr = res["trace"]
    cur: Dict[int, int] = {}
    state: Dict[int, Dict[str, Any]] = {}
    tick = 0
    starts_in_tick: Dict[Tuple[int, int], int] = {}
    deaths: List[Tuple[int, int, int]] = []   # (tick, slot, pid)
    starts: List[Tuple[int, int]] = []        # (tick, slot)
    kills: List[Any] = []
    first_kill_pos = None
    end_tick = None
    for pos, e in enumerate(tr):
        k = e[0]
        if k == "tick":
            tick = e[1]
        elif k == "start":
            slot, pid = e[1], e[2]
            if slot in cur:
                old = state[cur[slot]]
                if want == "C17":
                    if old["alive"]:
                        out.add("C17.a", f"tick {tick}: slot {slot} restarted while its process {cur[slot]} was still alive")
                    elif not old["joined_after_terminate"]:
                        out.add("C17.a", f"tick {tick}: slot {slot} restarted without terminate+join of old process {cur[slot]} "
                                         f"(terminated={old['terminated']}, joined={old['joined']})")
            if first_kill_pos is not None and want == "C18":
                out.add("C18.c", f"tick {tick}: process started for slot {slot} after shutdown signalling began")
            cur[slot] = pid
            state[pid] = {"alive": True, "terminated": False, "joined": False, "joined_after_terminate": False, "slot": slot}
            starts.append((tick, slot))
            starts_in_tick[(tick, slot)] = starts_in_tick.get((tick, slot), 0) + 1
        elif k == "die":
            state[e[2]]["alive"] = False
            if cur.get(e[1]) == e[2]:
                deaths.append((tick, e[1], e[2]))
        elif k == "terminate":
            stt = state[e[2]]
            stt["terminated"] = True
            stt["alive"] = e[4] in ("alive", "terminating")
        elif k == "exit":
            state[e[2]]["alive"] = False
        elif k == "join":
            stt = state[e[2]]
            if e[3] == "alive" and e[5] is None and want == "C17":
                out.add("C17.b", f"tick {tick}: join() on live process {e[2]} of slot {e[1]} (would block forever)")
            stt["joined"] = True
            stt["alive"] = e[4] in ("alive", "terminating")
            if stt["terminated"] and not stt["alive"]:
                stt["joined_after_terminate"] = True
        elif k == "kill":
            kills.append((pos, e[1], e[2], e[3]))
            if first_kill_pos is None:
                first_kill_pos = pos
        elif k in ("return", "raise"):
            end_tick = tick
    if want == "C17":
        if res["nworkers"] != W:
            out.add("C17.b", f"number of slots changed: {res['nworkers']} != {W}")
        last_tick = res["ticks_used"]
        # the manager may stop replacing workers only because it is shutting down (a TERM/INT was delivered) or because
        # its failure budget is exhausted (max_fails >= 1 unexpected exits were seen); any other end is a give-up
        shutdown_sig = any(e[0] == "sig" and e[1] in ("TERM", "INT") for e in tr)
        all_dies = sum(1 for e in tr if e[0] == "die")
        justified = shutdown_sig or res["status"] != "returned" or (mf >= 1 and all_dies >= mf)
        if res["status"] == "raised" and not shutdown_sig:
            # start() died with an exception although nobody asked the manager to stop: from here on nothing supervises the workers
            out.add("C17.c", f"the manager stopped supervising: start() raised {res.get('exc')} in tick {end_tick} without any shutdown request "
                             f"(signals delivered: {[e[1] for e in tr if e[0] == 'sig'][:6]}); workers that die from now on are never replaced")
        for (t, slot, pid) in deaths:
            if end_tick is not None and end_tick <= t + 2:
                if not justified and res.get("ret") is not None:
                    out.add("C17.c", f"slot {slot} died in tick {t} (pid {pid}); the manager stopped with status {res['ret']!r} in tick {end_tick} instead of "
                                     f"replacing it although it was not shutting down and no failure budget is exhausted (max_fails={mf}, {all_dies} exits seen)")
                continue    # shutting down / budget exhausted
            if last_tick < t + 2:
                continue    # history ended before two further ticks were observed
            dpos = next(i for i, e in enumerate(tr) if e[0] == "die" and e[2] == pid)
            tk2, replaced = t, False
            for e in tr[dpos + 1:]:
                if e[0] == "tick":
                    tk2 = e[1]
                    if tk2 > t + 2:
                        break
                elif e[0] == "start" and e[1] == slot:
                    replaced = True
                    break
            if not replaced:
                out.add("C17.c", f"slot {slot} died in tick {t} (pid {pid}) and was not replaced by the end of tick {t + 2}")
    if want == "C18":
        # a SIGINT / SIGTERM that was delivered is never lost: the manager begins to shut down (signals its workers / returns) by the end of
        # the next tick at the latest - whenever the signal arrived, also while the workers were still being started
        sig_pos = next((pos for pos, e in enumerate(tr) if e[0] == "sig" and e[1] in ("INT", "TERM")), None)
        if sig_pos is not None and res["status"] not in ("returned", "raised") and not kills:
            ticks_after = sum(1 for e in tr[sig_pos:] if e[0] == "tick")
            if ticks_after >= 3:
                out.add("C18.c", f"{tr[sig_pos][1]} was delivered {'before the first tick (while the workers were being started)' if not any(e[0] == 'tick' for e in tr[:sig_pos]) else 'in tick ' + str(sum(1 for e in tr[:sig_pos] if e[0] == 'tick'))}"
                                 f" but {ticks_after} ticks later the manager is still supervising: no worker signalled, no return (status={res['status']})")
        for (tk, slot), n in starts_in_tick.items():
            if n > 1 and tk > 0:
                out.add("C18.b", f"tick {tk}: slot {slot} restarted {n} times within one tick")
        if kills:
            if res["status"] == "raised":
                out.add("C18.c", f"shutdown aborted by {res['exc']}; kill calls so far: {[(k[1], k[3]) for k in kills]}")
            elif res["status"] != "returned" or res["ret"] is not None:
                out.add("C18.c", f"workers were signalled but the manager did not return the success status "
                                 f"(status={res['status']}, ret={res['ret']!r})")
            pids = [k[1] for k in kills]
            if len(set(pids)) != len(pids):
                out.add("C18.c", f"a worker was signalled twice: {pids}")
            for pos, pid, sig, stt in kills:
                if pid not in cur.values():
                    out.add("C18.c", f"signal sent to pid {pid}, which is not a current worker (state {stt})")
                elif stt == "reaped":
                    out.add("C18.c", f"signal sent to pid {pid} of an already reaped worker (ProcessLookupError / pid reuse)")
                if sig != 2:
                    out.add("C18.c", f"unexpected signal number {sig}")
            if res["status"] == "returned":
                for slot, pid in cur.items():
                    if state[pid]["alive"] and pid not in pids:
                        out.add("C18.c", f"live worker pid {pid} (slot {slot}) was not signalled on shutdown")
        elif res["status"] == "returned" and res["ret"] is None:
            live = [pid for slot, pid in cur.items() if state[pid]["alive"]]
            if live:
                out.add("C18.c", f"manager returned success without signalling live workers {live}")
    return {"deaths": deaths, "kills": kills, "end_tick": end_tick, "cur": cur, "state": state}


# ---------------------------------------------------------------- enumeration and generation


def alphabet(W: int) -> List[Dict[str, Any]]:
    subsets = [list(c) for r in range(W + 1) for c in itertools.combinations(range(W), r)]
    return [{"die": d, "sig": list(s)} for d in subsets for s in SIGSETS]


def enumerate_cases(bounds: List[Tuple[int, int]], shard: int, nshards: int) -> Iterable[Dict[str, Any]]:
    n = 0
    for W, depth in bounds:
        alpha = alphabet(W)
        for mf in MF:
            for d in range(1, depth + 1):
                for h in itertools.product(alpha, repeat=d):
                    for sd in ((), (0,), (W,), (W - 1, W)):
                        n += 1
                        if n % nshards != shard:
                            continue
                        yield {"W": W, "mf": mf, "h": list(h), "sd": list(sd)}


def count_cases(bounds: List[Tuple[int, int]]) -> int:
    tot = 0
    for W, depth in bounds:
        a = len(alphabet(W))
        tot += len(MF) * 4 * sum(a ** d for d in range(1, depth + 1))
    return tot


def histories(max_ticks: int = 40) -> Any:
    def tick(W: int) -> Any:
        return st.fixed_dictionaries({
            "die": st.one_of(st.just([]), st.just([]), st.lists(st.integers(0, W - 1), unique=True, max_size=W).map(sorted)),
            "exit0": st.one_of(st.just([]), st.lists(st.integers(0, W - 1), unique=True, max_size=W).map(sorted)),
            "sig": st.one_of(st.just([]), st.just([]), st.just([]), st.lists(st.sampled_from(["HUP", "FC", "HUP", "FC", "INT", "TERM"]), min_size=1, max_size=3)),
            # workers that are gone by the time the manager signals them although its is_alive() just said yes
            "vanish": st.one_of(st.just([]), st.just([]), st.just([]), st.lists(st.integers(0, W - 1), unique=True, max_size=W).map(sorted)),
            "burst": st.sampled_from([0] * 12 + [150, 450]),
            "wall_step": st.sampled_from([0] * 10 + [-90, -3600, 3600]),       # the host's wall clock is stepped at this tick
            # how the dying workers ended: exit status > 0, or killed by a signal (negative: SIGKILL, SIGTERM, a real-time signal, ...)
            "codes": st.dictionaries(st.sampled_from([str(i) for i in range(W)]), st.sampled_from([1, 3, 255, -9, -15, -11, -35, -64]), max_size=W),     # that many file-change events arrive within this tick
            "mid": st.one_of(st.just([]), st.just([]), st.just([]),
                             st.lists(st.tuples(st.integers(0, 14), st.sampled_from(["HUP", "FC", "INT", "TERM", "HUP"])).map(list), min_size=1, max_size=2)),
        })

    return st.integers(1, 3).flatmap(lambda W: st.fixed_dictionaries({
        "W": st.just(W), "mf": st.sampled_from(list(MF) + [5, 8, -2, -7]),
        "h": st.lists(tick(W), min_size=3, max_size=max_ticks),
        "sd": st.lists(st.integers(0, 12), max_size=3, unique=True).map(sorted),
        "slow": st.one_of(st.just([]), st.lists(st.tuples(st.integers(0, 8), st.sampled_from([2.0, 8.0, 30.0])).map(list), max_size=4, unique_by=lambda x: x[0])),
        # the OS hands out process ids from a small cyclic range: a replacement can get the number a reaped worker had
        "pidpool": st.sampled_from([0, 0, W + 1, W + 2, 2 * W + 1]),
        # signals delivered at the k-th fake OS call BEFORE the first tick, i.e. while prepare_workers() is starting the processes
        "boot": st.one_of(st.just([]), st.just([]), st.just([]), st.just([]),
                          st.lists(st.tuples(st.integers(0, 3), st.sampled_from(["INT", "TERM", "HUP", "TERM"])).map(list), min_size=1, max_size=2)),
    }).map(_put_boot))


def _put_boot(c: Dict[str, Any]) -> Dict[str, Any]:
    boot = c.pop("boot")
    if boot and c["h"]:
        c["h"] = [dict(c["h"][0], boot=boot)] + list(c["h"][1:])
    return c


def hosted_histories() -> Any:
    """Short histories for runs in which the manager lives in a multiprocessing child (one fork per case)."""
    return histories(8).map(lambda c: {**c, "hosted": True})


def has_mid(case: Dict[str, Any]) -> bool:
    return any(t.get("mid") or t.get("boot") for t in case["h"])


def classify(case: Dict[str, Any], res: Dict[str, Any], an: Dict[str, Any]) -> List[str]:
    cl = []
    if any(len({bool(t.get("die")), *t.get("sig", [])} - {False}) >= 2 for t in case["h"]):
        cl.append("multi_event_tick")
    if res["status"] == "returned" and res["ret"] == -1:
        cl.append("budget_reached")
    if an["kills"]:
        cl.append("shutdown")
        if any(not s["alive"] for pid, s in an["state"].items() if pid in an["cur"].values()):
            cl.append("shutdown_with_dead_worker")
    if case["sd"]:
        cl.append("startup_death")
    if has_mid(case):
        cl.append("mid_tick_signal")
    if case.get("slow"):
        cl.append("slow_shutdown_worker")
    if case.get("hosted"):
        cl.append("manager_hosted_in_mp_child")
    if case.get("pidpool"):
        cl.append("os_reuses_pids")
    return cl


def brief(tr: List[Any], n: int = 40) -> List[Any]:
    return tr[:n] + ([["...", len(tr) - n]] if len(tr) > n else [])
