"""C06 - concurrent executions are isolated; results are bound to their own task id."""
from __future__ import annotations

import asyncio
import contextvars
from typing import Any, Dict, List

from hypothesis import strategies as st

from taskiq import Context, TaskiqDepends
from taskiq.kicker import AsyncKicker
from taskiq.receiver import Receiver
from taskiq import AckableMessage
from taskiq.acks import AcknowledgeType

from vt.core.engine import Outcome, Part, short
from vt.core.vloop import Deadlock, VirtualTimeLoop
from vt.harness import depgraph as dg
from vt.harness import worker as wh

EXEC: contextvars.ContextVar = contextvars.ContextVar("vt_execution", default=None)

PID = "C06"
RULE = (
    "Hypothesis-generated programs: a task with a dependency DAG of 1-5 nodes (depth <= 3) mixing sync / async / "
    "generator / async-generator / context-manager styles, each dependency cached or use_cache=False, any node may "
    "take the Context and echo Context.message.{task_id, args[0], labels['who']}, async nodes sleep for generated "
    "virtual durations (or only `await` once); 2-4 messages with distinct ids / args / labels delivered to the real "
    "Receiver.callback at generated virtual instants so that their executions overlap, the task body sleeps too; a "
    "user-supplied custom dependency context on the broker in half of the cases; in half of the cases one node is "
    "replaced through broker.dependency_overrides by another generated dependency; in half of the cases the task also takes "
    "an annotated argument (a pydantic model accepting the scalar short form '1,2', the same wire value in every message), mutates it and reads it "
    "back after its suspension; in a third of the cases the task itself does not take the Context (only its dependencies do) while other messages go to a second task that does; in a third of the cases the first two messages carry the same task id; in a third of the cases the messages carry no labels at all and the first execution writes one in place (Context.requeue). Oracle: every echo made while "
    "processing message i (attributed through a context variable set when its callback starts, inherited by every task it spawns) shows message i's id, argument "
    "and label; the result stored under id i is the value execution i returned. Non-trivial: >=2 executions overlap in "
    "virtual time and some Context-reading node is un-cached or below an un-cached node; distinct = canonical JSON."
    " Part inmemory_backend also runs, with InMemoryBroker in both modes plus SimpleRetryMiddleware, tasks that kick a sub-task (executed inside kiq() when await_inplace) and then fail 1-3 times: every attempt sees its own message's argument and the results under parent and child ids are their own."
)
ASSUMPTIONS = ["virtual-time loop; an echo is attributed to the execution whose callback task made it",
               "deliveries are driven through Receiver.callback directly (one asyncio task per message), as Receiver.runner does"]


def node(i: int) -> Any:
    return st.fixed_dictionaries(dict(
        style=st.sampled_from(["sync", "async", "async", "gen", "agen", "cm", "acm"]),
        ctx=st.sampled_from([True, True, False]),
        sleep=st.sampled_from([0, 0, 0.05, 0.1, 0.2]),
        deps=st.lists(st.tuples(st.integers(0, max(i - 1, 0)), st.booleans()).map(list), max_size=2 if i > 0 else 0, unique_by=lambda x: x[0]),
    ))


def cases() -> Any:
    return st.integers(1, 5).flatmap(lambda n: st.fixed_dictionaries({
        "nodes": st.tuples(*[node(i) for i in range(n)]).map(list),
        "task_deps": st.lists(st.tuples(st.integers(0, n - 1), st.booleans()).map(list), min_size=1, max_size=3, unique_by=lambda x: x[0]),
        "msgs": st.lists(st.tuples(st.sampled_from([0, 0, 0.05, 0.1, 0.15, 0.3]), st.sampled_from([0, 0.05, 0.1, 0.2])).map(list), min_size=2, max_size=4),
        "custom_ctx": st.booleans(),
        # broker.dependency_overrides: a node replaced at run time by another generated dependency (own sub-dependencies
        # among the existing nodes); the worker then rebuilds the dependency graph per execution
        "overrides": st.one_of(st.just([]), st.lists(st.fixed_dictionaries({"target": st.integers(0, n - 1), "node": node(n)}), min_size=1, max_size=1)),
        "cached_base": st.booleans(),
        "box": st.booleans(),
        # the task itself does not take the Context (only its dependencies may), and some messages go to a second,
        # plain task that does: whatever that one left behind must not reach the first
        "no_task_ctx": st.sampled_from([False, False, True]),
        "to_plain": st.lists(st.booleans(), min_size=4, max_size=4),
        # messages without any label, and the first execution writes a label of its own in place (Context.requeue):
        # the others must keep seeing their own (empty) labels
        "no_labels": st.sampled_from([False, False, True]),
        # the first two messages carry the SAME task id (a redelivery / a re-kick with with_task_id): still two executions,
        # each with the Context of its own message
        "same_id": st.sampled_from([False, False, True]),
        # every message carries a nested mutable argument for an un-annotated parameter which its execution changes in place
        "bag": st.sampled_from([False, True]),
        # the task has a parameter filled by a cached Context-reading dependency; the FIRST message passes a value for it explicitly
        "explicit_dep": st.sampled_from([False, False, True]),
        # all messages go to a task WITHOUT dependencies that has an optional keyword argument; only the first message passes it
        "nodeps": st.sampled_from([False, False, False, True]),
        # the second delivery is a byte-identical copy of the first one (a redelivered message)
        "dup_payload": st.sampled_from([False, False, True]),
        # every message carries a label `prio`: typed (int, with a labels_types entry) as taskiq's own client sends it, or - for
        # the messages flagged here - as a plain string from a producer that announces no label types at all (labels_types null)
        "untyped": st.one_of(st.none(), st.none(), st.lists(st.booleans(), min_size=4, max_size=4)),
        "requeue_first": st.sampled_from([False, True]),
        # save calls (by call order) the result backend fails; what is handed to the backend under an id is still that id's own result
        "fail_saves": st.sampled_from([[], [], [], [0], [0, 1], [1]]),
        "ws_ids": st.sampled_from([False, False, False, True]),
        # messages delivered as ackable messages: acknowledge type, and how long the (async) acknowledgement takes
        "ack": st.one_of(st.none(), st.none(), st.fixed_dictionaries({"type": st.sampled_from(["when_received", "when_received", "when_executed", "when_saved"]),
                                                                       "lat": st.sampled_from([0, 0.05, 0.12, 0.3])})),
    }).map(_sanitize))


def _sanitize(c: Dict[str, Any]) -> Dict[str, Any]:
    """A replacement may only depend on nodes below its target (anything else can close a cycle through the override,
    on which the dependency library's graph construction does not terminate - an invalid program, not a property of taskiq)."""
    for rep in c.get("overrides") or []:
        rep["node"]["deps"] = [d for d in rep["node"]["deps"] if d[0] < rep["target"]]
    if c.get("cached_base") and c.get("overrides"):
        # family: the declared graph is fully cached, only the replacement brings un-cached sub-dependencies
        for nd in c["nodes"]:
            nd["deps"] = [[j, True] for j, _ in nd["deps"]]
        c["task_deps"] = [[j, True] for j, _ in c["task_deps"]]
        for rep in c["overrides"]:
            t = rep["target"]
            rep["node"]["deps"] = [[j, False] for j, _ in rep["node"]["deps"]] or ([[t - 1, False]] if t > 0 else [])
            rep["node"]["ctx"] = True
            for j, _ in rep["node"]["deps"]:
                c["nodes"][j]["ctx"] = True
    return c


def parts(tier: str) -> List[Part]:
    if tier == "thorough":
        return [Part("programs", "given", shards=16, examples=10000, strategy=cases, soft_deadline_s=3000)]
    return [Part("programs", "given", shards=8, examples=400, strategy=cases, soft_deadline_s=120)]


class Marker:
    pass


def run_case(c: Dict[str, Any]) -> Outcome:
    out = Outcome()
    out.clauses_checked = ["C06.a", "C06.b"]
    c = _sanitize(c)
    nodes, tdeps, msgs = c["nodes"], c["task_deps"], c["msgs"]
    loop = VirtualTimeLoop()
    loop.max_iterations = 100_000
    asyncio.set_event_loop(loop)
    echoes: Dict[Any, List[Any]] = {}
    boxes: Dict[Any, List[Any]] = {}
    seen_labels: Dict[Any, List[Any]] = {}
    bags: Dict[Any, List[Any]] = {}
    whos: Dict[Any, List[Any]] = {}
    footers: Dict[Any, List[Any]] = {}
    cur: Dict[Any, int] = {}
    spans: Dict[int, List[float]] = {}

    def LOG(kind: str, node_: Any, *payload: Any) -> None:
        k = EXEC.get()
        if kind == "echo":
            echoes.setdefault(k, []).append((node_, round(loop.time(), 6)) + payload)
        elif kind == "box":
            boxes.setdefault(k, []).append(payload[0])
        elif kind == "labels":
            seen_labels.setdefault(k, []).append(payload[0])
        elif kind == "bag":
            bags.setdefault(k, []).append(payload[0])
        elif kind == "who":
            whos.setdefault(k, []).append(payload[0])
        elif kind == "footer":
            footers.setdefault(k, []).append(tuple(payload))

    res: Dict[str, Any] = {}

    def is_untyped(k: int) -> bool:
        return bool(c.get("untyped")) and bool(c["untyped"][k % 4]) and not c.get("no_labels")

    def labels_of(k: int) -> Dict[str, Any]:
        if c.get("no_labels"):
            return {}
        if not c.get("untyped"):
            return {"who": f"w{k}"}
        return {"who": f"w{k}", "prio": str(k) if is_untyped(k) else k}

    def dup(k: int) -> bool:
        return bool(c.get("dup_payload")) and k == 1 and not c.get("requeue_first") and not (c.get("to_plain") or [False] * 4)[1]

    def src(k: int) -> int:
        return 0 if dup(k) else k      # whose content the delivery carries

    def tid_of(k: int) -> str:
        if dup(k):
            return "id0"
        if c.get("ws_ids") and not c.get("same_id"):
            # task ids that differ ONLY by surrounding whitespace (a custom id generator, ids read from a file): distinct ids all the same
            return ["id0", "id0 ", " id0", "id0\n"][k % 4]
        return "id0" if c.get("same_id") and k == 1 else f"id{k}"

    async def main() -> None:
        tr = wh.Trace(loop)
        b = wh.ScriptedBroker(tr)
        rb = wh.RecordingBackend(tr)
        if c.get("fail_saves"):
            rb.fail = set(c["fail_saves"])       # the backend is down for these save calls (in call order); later ones succeed
        b.result_backend = rb
        if c.get("custom_ctx"):
            b.add_dependency_context({Marker: Marker()})
        mod, task, src = dg.build(nodes, tdeps, {"kind": "ret", "replacements": c.get("overrides") or [], "box": c.get("box"), "bag": c.get("bag"), "who_dep": c.get("explicit_dep"), "no_task_ctx": c.get("no_task_ctx"),
                                                       "requeue_first": c.get("requeue_first") and c.get("no_labels")}, LOG)
        for ri, rep in enumerate(c.get("overrides") or []):
            b.dependency_overrides[getattr(mod, f"n{rep['target']}")] = getattr(mod, f"r{ri}")
        b.register_task(task, task_name="t")
        b.register_task(mod.plain, task_name="plain")
        b.register_task(mod.nodeps, task_name="nodeps")
        ackc = c.get("ack")
        r = Receiver(b, executor=wh.Inline(), max_async_tasks=10, run_startup=False,
                     **({"ack_type": AcknowledgeType(ackc["type"])} if ackc else {}))

        def deliver(data: bytes) -> Any:
            """plain bytes, or an ackable message whose confirmation is a network round trip (it really suspends)"""
            if not ackc:
                return data

            async def ack() -> None:
                if ackc["lat"]:
                    await asyncio.sleep(ackc["lat"])

            return AckableMessage(data=data, ack=ack)

        def payload(k: int, slp: float) -> Any:
            if c.get("nodeps"):
                kw_ = {"footer": "footer-of-0"} if k == 0 else {}
                return b.formatter.dumps(AsyncKicker("nodeps", b, {}).with_task_id(tid_of(k))._prepare_message(k, slp, **kw_)).message
            plain = bool((c.get("to_plain") or [False] * 4)[k % 4]) and k > 0 and len(msgs) > 1 and c.get("no_task_ctx")
            kw = {"box": "1,2"} if c.get("box") and not plain else {}     # the same wire value in every message
            if c.get("bag") and not plain:
                kw["bag"] = {"items": [1, 2]}
            if c.get("explicit_dep") and not plain and k == 0:
                kw["who"] = "given-by-caller-0"
            own_labels = labels_of(k)
            tm_ = AsyncKicker("plain" if plain else "t", b, dict(own_labels)).with_task_id(tid_of(k))._prepare_message(k, slp, **kw)
            if is_untyped(k):
                tm_.labels, tm_.labels_types = dict(own_labels), None
            return b.formatter.dumps(tm_).message

        async def one(k: int, start: float, slp: float) -> None:
            if start:
                await asyncio.sleep(start)
            EXEC.set(k)
            # a redelivery carries exactly the bytes of message 0
            m = payload(0, msgs[0][1]) if dup(k) else payload(k, slp)
            spans[k] = [loop.time(), None]
            await r.callback(deliver(m))
            spans[k][1] = loop.time()

        await asyncio.gather(*[one(k, s, sl) for k, (s, sl) in enumerate(msgs)])
        res["results"] = [(tid, r_.is_err, r_.return_value, type(r_.error).__name__ if r_.error else None) for tid, r_ in rb.results]

    try:
        try:
            loop.run_until_complete(main())
        except Deadlock as e:
            out.add("C06.a", "virtual loop deadlock: " + str(e))
    finally:
        loop.max_iterations = 0
        try:
            pend = [t for t in asyncio.all_tasks(loop) if not t.done()]
            for t in pend:
                t.cancel()
            if pend:
                try:
                    loop.run_until_complete(asyncio.gather(*pend, return_exceptions=True))
                except BaseException:  # noqa: BLE001
                    pass
        finally:
            loop.close()
            asyncio.set_event_loop(None)
    for k, ev in sorted(echoes.items(), key=lambda kv: str(kv[0])):
        for (node_, t, tid, a0, who) in ev:
            if k is None:
                out.add("C06.a", f"node {node_} ran outside any message's callback task")
            elif (tid, a0, who) != (tid_of(k), src(k), None if c.get("no_labels") else f"w{src(k)}"):
                out.add("C06.a", f"while processing message #{k} (task id {tid_of(k)}, arg {k}, label w{k}) at t={t}, node {node_} observed Context of "
                                 f"message {tid!r} (arg {a0!r}, label {who!r})")
    for k, seen_boxes in sorted(boxes.items(), key=lambda kv: str(kv[0])):
        for bx in seen_boxes:
            if bx != [1, 2, src(k)]:
                out.add("C06.a", f"execution of message id{k} appended its own id to its list argument (sent in the short form '1,2') and later "
                                 f"observed {bx}: the argument object is shared with another execution")
    for k, fl in sorted(footers.items(), key=lambda kv: str(kv[0])):
        for me_, footer_ in fl:
            want_f = "footer-of-0" if src(k) == 0 else None
            if me_ != src(k) or footer_ != want_f:
                out.add("C06.a", f"execution #{k} of the dependency-free task observed (me={me_!r}, footer={footer_!r}); its message carried me={src(k)} and "
                                 f"{'footer=' + repr(want_f) if want_f else 'no footer (default None)'} - only message 0 passed a footer")
    for k, wl in sorted(whos.items(), key=lambda kv: str(kv[0])):
        want_who = "given-by-caller-0" if src(k) == 0 else tid_of(k)
        for w_ in wl:
            if w_ != want_who:
                out.add("C06.a", f"execution #{k} (task id {tid_of(k)}) got {w_!r} for its injected parameter, expected {want_who!r} "
                                 f"(message 0 passed the value 'given-by-caller-0' for that parameter explicitly)")
    for k, bl in sorted(bags.items(), key=lambda kv: str(kv[0])):
        for bg in bl:
            if bg != [1, 2, "x"]:
                out.add("C06.a", f"execution #{k} appended one element to the list inside its own argument {{'items': [1, 2]}} and later observed {bg}: "
                                 f"the argument object is shared with another execution" + (" (the two deliveries are byte-identical)" if c.get("dup_payload") else ""))
    for k, ls in sorted(seen_labels.items(), key=lambda kv: str(kv[0])):
        want = labels_of(src(k))
        for got in ls:
            if got != want or any(type(got[x]) is not type(want[x]) for x in want):
                out.add("C06.a", f"execution of message id{k} (sent with labels {want}) observed labels {got} through its Context")
    stored: Dict[str, List[Any]] = {}
    for tid, is_err, rv, en in res.get("results", []):
        stored.setdefault(tid, []).append((is_err, rv, en))
    want_by_id: Dict[str, List[int]] = {}
    for k in range(len(msgs)):
        if k == 0 and c.get("requeue_first") and c.get("no_labels") and not c.get("no_task_ctx") and not c.get("nodeps"):
            want_by_id.setdefault(tid_of(k), [])
            continue      # the requeueing execution signals no-result
        want_by_id.setdefault(tid_of(k), []).append(src(k))
    for tid, want_vals in sorted(want_by_id.items()):
        got = stored.get(tid, [])
        if len(got) != len(want_vals):
            out.add("C06.b", f"{len(got)} results stored under {tid}, {len(want_vals)} executions carried that id")
        elif any(g[0] for g in got) or sorted(g[1] for g in got) != sorted(want_vals):
            out.add("C06.b", f"results stored under {tid} are {got} - expected the value(s) {want_vals} returned by the execution(s) of the message(s) carrying that id")
    iv = sorted((s, e if e is not None else s) for s, e in spans.values())
    overlap = any(b_[0] < a_[1] for a_, b_ in zip(iv, iv[1:]))
    reach = dg.reachable(nodes, tdeps)
    risky = False
    for lst, owner in [(tdeps, None)] + [(nodes[i]["deps"], i) for i in reach]:
        for j, uc in lst:
            if not uc and (nodes[j]["ctx"] or any(nodes[d]["ctx"] for d in dg.descendants(nodes, j))):
                risky = True
    out.nontrivial = bool(overlap and risky)
    out.classes = [c_ for c_, f in (("overlap", overlap), ("uncached_ctx_reader", risky), ("custom_ctx", c.get("custom_ctx")), ("dependency_overrides", bool(c.get("overrides"))), ("context_only_via_dependencies", bool(c.get("no_task_ctx"))), ("label_less_messages", bool(c.get("no_labels"))), ("two_messages_same_task_id", bool(c.get("same_id"))), ("result_backend_fails_some_saves", bool(c.get("fail_saves"))), ("slow_ack_before_execution", bool(c.get("ack")) and c["ack"]["type"] == "when_received" and c["ack"]["lat"] > 0), ("byte_identical_redelivery", bool(c.get("dup_payload"))), ("nested_mutable_argument", bool(c.get("bag"))), ("explicit_value_for_injected_parameter", bool(c.get("explicit_dep"))), ("dependency_free_task_optional_kwarg", bool(c.get("nodeps"))), ("typed_and_untyped_label_messages", bool(c.get("untyped")) and len({is_untyped(k) for k in range(len(msgs))}) == 2),
                                    ("generator_style", any(nodes[i]["style"] in dg.YIELDING for i in reach))) if f]
    out.trace = {"echoes": {str(k): [list(e[:3]) for e in v[:6]] for k, v in echoes.items()}, "spans": {str(k): v for k, v in spans.items()}}
    return out


SELFTEST_CASES = [{"nodes": [{"style": "async", "ctx": True, "sleep": 0, "deps": []}, {"style": "async", "ctx": False, "sleep": 0, "deps": [[0, False]]}],
                   "task_deps": [[1, False]], "msgs": [[0, 0], [0, 0]], "custom_ctx": False}]


# ---------------------------------------------------------------- results in the bundled in-memory backend
#
# "the result stored under a task id is the one produced by executing the message that carried that id" - also in the
# result backend taskiq ships with InMemoryBroker, whose store is bounded (max_stored_results) and evicts the oldest entry.


def inmemory_cases() -> Any:
    return st.fixed_dictionaries({
        "inmemory": st.just(True), "cap": st.sampled_from([-1, 1, 2, 3, 5]), "n": st.integers(1, 9),
        "inplace": st.booleans(), "resend": st.sampled_from([False, False, True]),       # resend: one id is used twice
        # nested: every message's task kicks a sub-task (run inside kiq() when await_inplace) and then fails once; the bundled
        # retry middleware sends it again under the same id
        "nested": st.sampled_from([False, False, True]), "fails": st.integers(1, 3),
    })


def run_nested_case(c: Dict[str, Any]) -> Outcome:
    from taskiq import InMemoryBroker, SimpleRetryMiddleware

    out = Outcome()
    out.clauses_checked = ["C06.a", "C06.b"]
    n = c["n"]

    async def main() -> None:
        b = InMemoryBroker(await_inplace=c["inplace"]).with_middlewares(SimpleRetryMiddleware(default_retry_count=c["fails"] + 1))
        seen: List[Any] = []

        async def child(k: int, ctx: Context = TaskiqDepends()) -> Dict[str, Any]:
            seen.append((ctx.message.task_id, k))
            await asyncio.sleep(0)
            return {"produced_by": k}

        async def parent(k: int, ctx: Context = TaskiqDepends()) -> Dict[str, Any]:
            tid = ctx.message.task_id
            seen.append((tid, k))
            att = int(ctx.message.labels.get("_retries", 0))
            if att < c["fails"]:
                await AsyncKicker("inmem.child", b, {}).with_task_id(f"c{att}-{tid}").kiq(k + 1000 * (att + 1))
                await asyncio.sleep(0)
                raise RuntimeError("attempt fails")
            return {"produced_by": k}

        child.__module__ = parent.__module__ = __name__
        b.register_task(child, task_name="inmem.child")
        b.register_task(parent, task_name="inmem.parent", retry_on_error=True)
        kicks = [AsyncKicker("inmem.parent", b, {"retry_on_error": True}).with_task_id(f"p{k}").kiq(k) for k in range(n)]
        if c["inplace"]:
            for kc in kicks:
                await kc
        else:
            await asyncio.gather(*kicks)
            for _ in range(4 * (c["fails"] + 2)):
                await b.wait_all()
                await asyncio.sleep(0)
        want = {f"p{k}": k for k in range(n)}
        for k in range(n):
            for att in range(c["fails"]):
                want[f"c{att}-p{k}"] = k + 1000 * (att + 1)
        for tid, k in seen:
            if want.get(tid) != k:
                out.add("C06.a", f"an execution of the message with id {tid} received argument {k}; that message was sent with {want.get(tid)} "
                                 f"(await_inplace={c['inplace']}, sub-task kicked inside a failing, retried task)")
                return
        for tid, k in want.items():
            if not await b.result_backend.is_result_ready(tid):
                out.add("C06.b", f"no result stored under {tid} after all executions finished (await_inplace={c['inplace']})")
                return
            r = await b.result_backend.get_result(tid)
            if r.is_err or r.return_value != {"produced_by": k}:
                out.add("C06.b", f"the result stored under {tid} is {short(r.return_value, 80)} (is_err={r.is_err}); the message carrying that id was sent with {k} "
                                 f"(await_inplace={c['inplace']}, sub-task kicked inside a failing, retried task)")
                return
        await b.shutdown()

    asyncio.run(main())
    out.nontrivial = True
    out.classes = ["inmemory_nested_retry", "inplace" if c["inplace"] else "create_task"]
    return out


def run_inmemory_case(c: Dict[str, Any]) -> Outcome:
    from taskiq import InMemoryBroker

    out = Outcome()
    out.clauses_checked = ["C06.b"]
    n, cap = c["n"], c["cap"]
    ids = [f"id{k}" for k in range(n)]
    if c["resend"] and n >= 3:
        ids[-1] = ids[0]

    async def main() -> None:
        b = InMemoryBroker(await_inplace=c["inplace"], max_stored_results=cap)

        async def t(k: int) -> Dict[str, Any]:
            return {"produced_by": k}

        t.__module__ = __name__
        b.register_task(t, task_name="inmem.t")
        latest: Dict[str, int] = {}
        order: List[str] = []
        for k, tid in enumerate(ids):
            await AsyncKicker("inmem.t", b, {}).with_task_id(tid).kiq(k)
            if not c["inplace"]:
                await b.wait_all()
            latest[tid] = k
            if tid in order:
                order.remove(tid)
            order.append(tid)
            # the newest result is retrievable under its own id, and every id that still answers gives its own execution's value
            for tid2, k2 in latest.items():
                if await b.result_backend.is_result_ready(tid2):
                    r = await b.result_backend.get_result(tid2)
                    if r.is_err or r.return_value != {"produced_by": k2}:
                        out.add("C06.b", f"after executing message #{k} (id {tid}): the result stored under {tid2} is {short(r.return_value, 80)} "
                                         f"(is_err={r.is_err}), but the message carrying that id was #{k2} (store capacity {cap})")
                        return
                elif tid2 == tid and cap != 0:
                    out.add("C06.b", f"the result of message #{k} is not stored under its own id {tid} right after its execution (store capacity {cap})")
                    return
        await b.shutdown()

    asyncio.run(main())
    out.nontrivial = bool(cap != -1 and len(set(ids)) > cap)
    out.classes = ["inmemory_backend"] + (["store_overflows"] if out.nontrivial else []) + (["id_used_twice"] if len(set(ids)) < n else [])
    return out


_base_parts06, _base_run06 = parts, run_case


def parts(tier: str) -> List[Part]:  # type: ignore[no-redef]
    nn = 3000 if tier == "thorough" else 150
    return _base_parts06(tier) + [Part("inmemory_backend", "given", shards=2, examples=nn, strategy=inmemory_cases, soft_deadline_s=900 if tier == "thorough" else 100)]


def run_case(c: Dict[str, Any]) -> Outcome:  # type: ignore[no-redef]
    if c.get("inmemory") and c.get("nested"):
        return run_nested_case(c)
    return run_inmemory_case(c) if c.get("inmemory") else _base_run06(c)


# ---------------------------------------------------------------- error results as a serialising backend stores them
#
# "the result stored under a task id is the one produced by executing the message that carried that id" - for FAILED executions as well,
# and in the form network backends keep: the backend serialises the result (model_dump -> JSON bytes) the moment it is saved.  Several
# rounds of concurrently failing tasks, each raising an error with a marker of its own; between rounds the finished executions'
# exceptions are garbage-collected (their memory gets re-used by the next round's exceptions).

def serialized_error_cases() -> Any:
    return st.fixed_dictionaries({"ser_errors": st.just(True), "rounds": st.integers(2, 5), "n": st.integers(1, 6), "gc": st.sampled_from([True, True, False]),
                                  "exc": st.sampled_from(["ValueError", "KeyError", "MyErr"]), "dump": st.sampled_from(["json", "python"])})


class _SerMyErr(Exception):
    pass


def run_serialized_errors(c: Dict[str, Any]) -> Outcome:
    import gc
    import json

    from taskiq import InMemoryBroker
    from taskiq.abc.result_backend import AsyncResultBackend
    from taskiq.compat import model_dump

    out = Outcome()
    out.clauses_checked = ["C06.b"]
    stored: Dict[str, Any] = {}
    EXC = {"ValueError": ValueError, "KeyError": KeyError, "MyErr": _SerMyErr}[c["exc"]]

    class SerBackend(AsyncResultBackend):  # type: ignore[type-arg]
        async def set_result(self, task_id: str, result: Any) -> None:
            d = model_dump(result)
            stored[task_id] = json.loads(json.dumps(d, default=str)) if c["dump"] == "json" else d

        async def is_result_ready(self, task_id: str) -> bool:
            return task_id in stored

        async def get_result(self, task_id: str, with_logs: bool = False) -> Any:
            raise KeyError(task_id)

    async def main() -> None:
        b = InMemoryBroker()
        b.result_backend = SerBackend()

        async def failing(marker: str) -> None:
            await asyncio.sleep(0)
            raise EXC(marker)

        failing.__module__ = __name__
        b.register_task(failing, task_name="ser.failing")
        for r_ in range(c["rounds"]):
            await asyncio.gather(*[AsyncKicker("ser.failing", b, {}).with_task_id(f"id-r{r_}-n{k}").kiq(f"boom-r{r_}-n{k}") for k in range(c["n"])])
            await b.wait_all()
            if c["gc"]:
                gc.collect()
        await b.shutdown()

    asyncio.run(main())
    for r_ in range(c["rounds"]):
        for k in range(c["n"]):
            tid, marker = f"id-r{r_}-n{k}", f"boom-r{r_}-n{k}"
            d = stored.get(tid)
            if d is None:
                out.add("C06.b", f"no result stored under {tid}")
                return out
            if marker not in json.dumps(d.get("error"), default=str):
                out.add("C06.b", f"the (serialised) result stored under {tid} carries the error {short(d.get('error'), 160)}; the execution of that message raised {c['exc']}({marker!r}) "
                                 f"(round {r_ + 1} of {c['rounds']}, {c['n']} concurrent failing tasks per round, gc between rounds: {c['gc']})")
                return out
    out.nontrivial = c["rounds"] * c["n"] >= 4
    out.classes = ["serialized_errors", "gc_between_rounds" if c["gc"] else "no_explicit_gc"]
    return out


_parts_core06c, _run_core06c = parts, run_case


def parts(tier: str) -> List[Part]:  # type: ignore[no-redef]
    return _parts_core06c(tier) + [Part("serialized_errors", "given", shards=2, examples=2000 if tier == "thorough" else 120,
                                        strategy=serialized_error_cases, soft_deadline_s=900 if tier == "thorough" else 100)]


def run_case(c: Dict[str, Any]) -> Outcome:  # type: ignore[no-redef]
    return run_serialized_errors(c) if c.get("ser_errors") else _run_core06c(c)


# ---------------------------------------------------------------- sync task functions queued behind a saturated REAL thread pool
#
# "each task function observes the arguments of its own message only": also when plain `def` functions wait in the executor's queue
# because every pool thread is busy (a burst larger than the pool).  One pool thread, 2-5 messages; the first call blocks on a gate until
# all deliveries have handed their call to the pool.  Verdict: the argument each call received and the result under each id.

def saturated_pool_cases() -> Any:
    return st.fixed_dictionaries({"sat_pool": st.just(True), "n": st.integers(2, 5), "threads": st.sampled_from([1, 1, 2])})


def run_saturated_pool(c: Dict[str, Any]) -> Outcome:
    import threading
    from concurrent.futures import ThreadPoolExecutor

    from taskiq import InMemoryBroker

    out = Outcome()
    out.clauses_checked = ["C06.a", "C06.b"]
    n = c["n"]
    seen: List[Any] = []
    gate = threading.Event()

    async def main() -> Any:
        ex = ThreadPoolExecutor(max_workers=c["threads"])
        try:
            b = InMemoryBroker()

            def work(k: int, ctx: Context = TaskiqDepends()) -> Dict[str, Any]:
                seen.append((ctx.message.task_id, k))
                gate.wait(20)
                return {"produced_by": k}

            work.__module__ = __name__
            b.register_task(work, task_name="sat.work")
            r = Receiver(b, executor=ex, max_async_tasks=10, run_startup=False)
            datas = [b.formatter.dumps(AsyncKicker("sat.work", b, {}).with_task_id(f"id{k}")._prepare_message(k)).message for k in range(n)]
            tasks = [asyncio.ensure_future(r.callback(d_)) for d_ in datas]
            for _ in range(20000):
                if seen:
                    break
                await asyncio.sleep(0.0005)
            for _ in range(200):
                await asyncio.sleep(0)          # every delivery gets to hand its call to the (busy) pool
            gate.set()
            await asyncio.gather(*tasks, return_exceptions=True)
            res = {}
            for k in range(n):
                if await b.result_backend.is_result_ready(f"id{k}"):
                    res[f"id{k}"] = await b.result_backend.get_result(f"id{k}")
            return res
        finally:
            gate.set()
            ex.shutdown(wait=True)

    loop = asyncio.new_event_loop()
    loop.set_exception_handler(lambda l, ctx: None)
    try:
        res = loop.run_until_complete(main())
    finally:
        loop.close()
    for tid, k in seen:
        if tid != f"id{k}":
            out.add("C06.a", f"the execution of message {tid} received argument {k} - the argument of message id{k} ({n} sync-function messages queued behind a pool of {c['threads']} thread(s))")
            return out
    for k in range(n):
        r_ = res.get(f"id{k}")
        if r_ is None or r_.is_err or r_.return_value != {"produced_by": k}:
            out.add("C06.b", f"the result stored under id{k} is {short(getattr(r_, 'return_value', None), 80)} (is_err={getattr(r_, 'is_err', None)}); that message was sent with argument {k} "
                             f"({n} sync-function messages queued behind a pool of {c['threads']} thread(s))")
            return out
    out.nontrivial = n > c["threads"]
    out.classes = ["saturated_pool", f"threads={c['threads']}"]
    return out


_parts_core06d, _run_core06d = parts, run_case


def parts(tier: str) -> List[Part]:  # type: ignore[no-redef]
    return _parts_core06d(tier) + [Part("saturated_pool", "given", shards=2, examples=400 if tier == "thorough" else 30,
                                        strategy=saturated_pool_cases, soft_deadline_s=900 if tier == "thorough" else 100)]


def run_case(c: Dict[str, Any]) -> Outcome:  # type: ignore[no-redef]
    return run_saturated_pool(c) if c.get("sat_pool") else _run_core06d(c)
