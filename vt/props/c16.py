"""C16 - scheduled sends carry the schedule's payload and honour source callbacks."""
from __future__ import annotations

import asyncio
import datetime as dtm
from typing import Any, Dict, List

from hypothesis import strategies as st
from hypothesis.stateful import RuleBasedStateMachine, initialize, rule

from taskiq import AsyncBroker, ScheduledTask, ScheduleSource, TaskiqScheduler
from taskiq.brokers.shared_broker import AsyncSharedBroker
from taskiq.exceptions import ScheduledTaskCancelledError, SendTaskError
from taskiq.formatters.json_formatter import JSONFormatter
from taskiq.schedule_sources import LabelScheduleSource
from taskiq.serializers import PickleSerializer

from vt.core import engine
from vt.core.engine import Outcome, Part, short
from vt.props.c09 import LABELS, dec, same

PID = "C16"
RULE = (
    "(1) 'on_ready': Hypothesis schedules with generated task name, args / kwargs (JSON-exact values), typed labels "
    "(int, float, bool, str, bytes), cron or time, fired through the real TaskiqScheduler.on_ready with a recording "
    "source whose pre_send / post_send are sync, async, or plain functions returning a coroutine, cancelling (ScheduledTaskCancelledError) or not, and a broker "
    "whose kick may fail; codec JSON / pickle / JSONFormatter. Oracle: order pre_send -> kick -> post_send; cancel => no "
    "kick and no post_send; failing kick => SendTaskError and no post_send; otherwise exactly one message whose decoded "
    "task name, args, kwargs and typed labels equal the schedule's plus its schedule_id - nothing more, also when an earlier schedule of the same task with other labels went through the same scheduler instance. (2) 'label_source': a "
    "RuleBasedStateMachine over the real LabelScheduleSource: 1-3 tasks on the source's own broker or shared "
    "(foreign-broker) tasks - a shared task may carry the NAME of an own task, which keeps priority -, each with 0-5 schedule entries of kind cron / time / both / neither / with extra keys, "
    "duplicates and equal times; rules list and fire (= real scheduler.on_ready on any schedule of ANY earlier listing, "
    "so stale and repeated firings occur) in any order. Model: one list per task. Invariant at every listing (a listing is a step of the history, none is made behind its back) and at the end: the "
    "multiset (task, cron, time, args, kwargs) of get_schedules() equals the model's cron/time entries of own-broker "
    "tasks; every firing of a time-only schedule removes exactly one entry whose time equals the fired one (if any is "
    "left) and changes nothing else; firing cron / cron+time entries removes nothing; each firing sends exactly one "
    "message with the entry's args. (3) 'loop_sources': the real scheduler loop with 2-3 sources whose get_schedules() answers after different virtual delays, some with a cancelling pre_send: every hook call must concern a schedule of that very source, every sent schedule has pre_send before and post_send after it on its own source, cancelled ones are never sent. Non-trivial: >=2 entries share a time or a task and >=1 is fired; a loop case in which an earlier source answers later than a later one."
)
ASSUMPTIONS = ["the global task registry is cleared before and after every case",
               "which of several entries with equal time is removed is not prescribed by the statement: any one of them is accepted"]

T0 = dtm.datetime(2030, 1, 1, 12, 0, 0)
TIMES = [T0, T0 + dtm.timedelta(seconds=30), T0.replace(tzinfo=dtm.timezone.utc), T0 + dtm.timedelta(days=1)]
JSONV = st.recursive(st.one_of(st.none(), st.booleans(), st.integers(-10**20, 10**20), st.floats(allow_nan=False, allow_infinity=False),
                               st.text(alphabet=st.characters(blacklist_categories=("Cs",)), max_size=4)),
                     lambda c: st.one_of(st.lists(c, max_size=3), st.dictionaries(st.text(alphabet="abk", max_size=2), c, max_size=3)), max_leaves=5)


# ------------------------------------------------------------------ part 1: on_ready


def on_ready_cases() -> Any:
    return st.fixed_dictionaries({
        "args": st.lists(JSONV, max_size=3), "kwargs": st.dictionaries(st.sampled_from(["a", "b", "key"]), JSONV, max_size=2),
        "labels": LABELS, "kind": st.sampled_from(["cron", "time"]),
        "pre": st.sampled_from(["none", "sync", "async", "deferred"]), "post": st.sampled_from(["none", "sync", "async", "deferred"]),
        "cancel": st.sampled_from([False, False, True]), "kick_fails": st.sampled_from([False, False, False, True]),
        "codec": st.sampled_from(["json", "pickle", "jsonfmt"]), "sid": st.text(alphabet="abcdef0123456789-", min_size=1, max_size=12),
        # an earlier schedule of the SAME task fired through the same scheduler instance, with labels of its own
        "before": st.one_of(st.none(), st.fixed_dictionaries({"labels": LABELS, "args": st.lists(JSONV, max_size=2)})),
        # the schedule's own labels already contain a `schedule_id` (labels of a received scheduled message propagated to a
        # follow-up schedule): the message must carry the id of the schedule that fires
        "stale_sid": st.one_of(st.none(), st.none(), st.none(), st.sampled_from(["earlier", "first-schedule", ""])),
        "pre_edit": st.sampled_from([None, None, None, "stamp", "replace"]),
        # where the source's hooks live: in its class body, in a base class it inherits from, or bound on the instance (callbacks handed
        # to the constructor, a mock): `source.pre_send(task)` reaches them in every case
        "bind": st.sampled_from(["class", "class", "inherited", "instance"]),
        "surrogate": st.sampled_from([False, False, True]),
        # the schedule's task is known to the scheduler's broker and was DECLARED with labels of its own: the message still carries the schedule's
        "registered": st.sampled_from([False, False, True]),
    })


class RecBroker(AsyncBroker):
    def __init__(self, log: List[Any], fail: bool = False) -> None:
        super().__init__()
        self.log = log
        self.fail = fail
        self.sent: List[Any] = []

    async def kick(self, m: Any) -> None:
        self.log.append("kick")
        if self.fail:
            raise RuntimeError("broker down")
        self.sent.append(m)

    async def listen(self):  # type: ignore[override]
        yield b""


def strict_eq(a: Any, b: Any) -> bool:
    if type(a) is not type(b):
        return False
    if isinstance(a, list):
        return len(a) == len(b) and all(strict_eq(x, y) for x, y in zip(a, b))
    if isinstance(a, dict):
        return list(a) == list(b) and all(strict_eq(a[k], b[k]) for k in a)
    return a == b


def run_on_ready(c: Dict[str, Any]) -> Outcome:
    if c.get("surrogate") and c["codec"] != "jsonfmt":
        # a text argument / kwarg / label value with a lone surrogate (an undecodable file name through os.fsdecode): the stdlib-JSON and
        # pickle serialisers carry it; pydantic's own JSON writer (JSONFormatter) refuses such text by design, so it is not used there
        c = dict(c, args=list(c["args"]) + ["report-\udcff.csv"], kwargs=dict(c["kwargs"], path="\ud800x"),
                 labels=dict(c["labels"], **{"origin-file": {"s": "a\udcffb"}}))
    out = Outcome()
    out.clauses_checked = ["C16.a", "C16.b"]
    log: List[Any] = []
    labels = {k: dec(v) for k, v in c["labels"].items()}

    def edit(name: str, task: Any) -> None:
        # pre_send runs FIRST: what it does to the schedule (stamp a label in place, give it a new label dict) is what gets sent
        if name != "pre_send" or not c.get("pre_edit"):
            return
        if c["pre_edit"] == "stamp":
            task.labels["fired_by"] = "source-A"
            labels["fired_by"] = "source-A"
        else:
            task.labels = {"queue": "slow"}
            labels.clear()
            labels["queue"] = "slow"
            if c.get("stale_sid") is not None:
                pass

    def mk(name: str, mode: str, cancel: bool) -> Any:
        if mode == "none":
            return None
        if mode == "sync":
            def f(self: Any, task: Any) -> None:
                log.append(name)
                edit(name, task)
                if cancel:
                    raise ScheduledTaskCancelledError
            return f

        async def g(self: Any, task: Any) -> None:
            log.append(name)
            edit(name, task)
            if cancel:
                raise ScheduledTaskCancelledError
        if mode == "deferred":
            # a plain function that returns an awaitable (e.g. a hook wrapped by an ordinary decorator): allowed by the
            # ScheduleSource signature, the body only runs when the returned coroutine is awaited
            def h(self: Any, task: Any) -> Any:
                return g(self, task)
            return h
        return g

    ns: Dict[str, Any] = {}

    async def get_schedules(self: Any) -> List[Any]:
        return []

    ns["get_schedules"] = get_schedules
    pre = mk("pre_send", c["pre"], c["cancel"])
    post = mk("post_send", c["post"], False)
    bind = c.get("bind", "class")
    if bind != "instance":
        if pre:
            ns["pre_send"] = pre
        if post:
            ns["post_send"] = post
    Src = type("Src", (ScheduleSource,), ns)
    if bind == "inherited":
        Src = type("AppSrc", (Src,), {"__doc__": "inherits the hooks"})
    cancels = c["cancel"] and c["pre"] != "none"

    async def go() -> Any:
        b = RecBroker(log, c["kick_fails"])
        if c["codec"] == "pickle":
            b.serializer = PickleSerializer()
        if c["codec"] == "jsonfmt":
            b.formatter = JSONFormatter()
        if c.get("registered"):
            def some_task(*a: Any, **k: Any) -> None:
                return None

            some_task.__module__ = __name__
            b.register_task(some_task, task_name="some.task", retry_on_error=True, max_retries=3, queue="declared-queue")
        src = Src()
        if bind == "instance":
            import types

            if pre:
                src.pre_send = types.MethodType(pre, src)       # type: ignore[method-assign]
            if post:
                src.post_send = types.MethodType(post, src)     # type: ignore[method-assign]
        sched = TaskiqScheduler(b, [src])
        kw = {"cron": "* * * * *"} if c["kind"] == "cron" else {"time": T0}
        if c.get("stale_sid") is not None:
            labels["schedule_id"] = c["stale_sid"]
        task = ScheduledTask(task_name="some.task", labels=dict(labels), args=list(c["args"]), kwargs=dict(c["kwargs"]), schedule_id=c["sid"], **kw)
        if c.get("before"):
            quiet = type("Quiet", (ScheduleSource,), {"get_schedules": get_schedules})()
            first = ScheduledTask(task_name="some.task", labels={k: dec(v) for k, v in c["before"]["labels"].items()},
                                  args=list(c["before"]["args"]), kwargs={}, schedule_id="earlier", cron="* * * * *")
            b.fail = False
            await sched.on_ready(quiet, first)
            b.fail = c["kick_fails"]
            b.sent.clear()
            log.clear()
        err = None
        try:
            await sched.on_ready(src, task)
        except BaseException as e:  # noqa: BLE001
            err = e
        return b, err

    b, err = asyncio.run(go())
    exp = (["pre_send"] if c["pre"] != "none" else [])
    if not cancels:
        exp += ["kick"]
        if not c["kick_fails"] and c["post"] != "none":
            exp += ["post_send"]
    if log != exp:
        out.add("C16.a", f"callback order {log} != expected {exp} (pre={c['pre']}, post={c['post']}, cancel={c['cancel']}, kick_fails={c['kick_fails']})")
    if cancels:
        if err is not None:
            out.add("C16.a", f"cancelled schedule raised {type(err).__name__}")
        if b.sent:
            out.add("C16.a", "a cancelled schedule was sent")
    elif c["kick_fails"]:
        if not isinstance(err, SendTaskError):
            out.add("C16.a", f"failing kick surfaced as {type(err).__name__ if err else None}, expected SendTaskError")
    else:
        if err is not None:
            out.add("C16.b", f"on_ready raised {type(err).__name__}: {short(err, 200)}")
        elif len(b.sent) != 1:
            out.add("C16.b", f"{len(b.sent)} messages sent, expected exactly one")
        else:
            tm = b.formatter.loads(b.sent[0].message)
            try:
                tm.parse_labels()
            except Exception as exc:  # noqa: BLE001 - what the worker would hit when it receives this message
                out.add("C16.b", f"the labels of the sent message cannot be decoded by the receiving side: {type(exc).__name__}: {short(exc, 120)}; schedule labels {short(labels, 160)}")
                return out
            want = {**labels, "schedule_id": c["sid"]}
            if tm.task_name != "some.task" or b.sent[0].task_name != "some.task":
                out.add("C16.b", f"sent task name {tm.task_name!r}")
            if not strict_eq(tm.args, list(c["args"])) or not strict_eq(tm.kwargs, dict(c["kwargs"])):
                out.add("C16.b", f"sent args/kwargs {short((tm.args, tm.kwargs), 200)} != schedule's {short((c['args'], c['kwargs']), 200)}")
            if set(tm.labels) != set(want) or any(not same(tm.labels[k], v) for k, v in want.items()):
                out.add("C16.b", f"sent labels {short(tm.labels, 200)} != schedule labels + schedule_id {short(want, 200)}")
    out.nontrivial = bool(cancels or c["kick_fails"] or labels or c["args"] or c["kwargs"])
    out.classes = [c["codec"], c["kind"]] + [cl for cl, f in (("cancelled", cancels), ("kick_fails", c["kick_fails"]),
                                                             ("async_callback", "async" in (c["pre"], c["post"])), ("earlier_schedule_same_task", bool(c.get("before")))) if f]
    return out


# ------------------------------------------------------------------ part 2: label source machine


def entry_strategy() -> Any:
    return st.fixed_dictionaries({
        "kind": st.sampled_from(["cron", "time", "time", "time", "time", "both", "neither"]),
        "cron": st.sampled_from(["* * * * *", "*/5 * * * *", "1 2 3 4 5"]),
        "t": st.integers(0, len(TIMES) - 1),
        "tag": st.integers(0, 2),
        "extra": st.booleans(),
    })


def setup_strategy() -> Any:
    # clash: a shared (foreign-broker) task registered under the NAME of an own task - the own broker's task keeps priority
    task = st.fixed_dictionaries({"where": st.sampled_from(["own", "own", "own", "shared"]), "entries": st.lists(entry_strategy(), max_size=5),
                                  "clash": st.sampled_from([False, True]),
                                  # declared WITHOUT labels; the schedule is attached afterwards through the public attribute (task.labels["schedule"] = [...])
                                  "attach_later": st.sampled_from([False, False, True])})
    return st.lists(task, min_size=1, max_size=3)


class LabelSim:
    def __init__(self) -> None:
        AsyncBroker.global_task_registry.clear()
        self.loop = asyncio.new_event_loop()
        self.log: List[Any] = []
        self.broker = RecBroker(self.log)
        self.shared = AsyncSharedBroker()
        self.source = LabelScheduleSource(self.broker)
        self.scheduler = TaskiqScheduler(self.broker, [self.source])
        self.ops: List[Any] = []
        self.tasks: List[Any] = []
        self.model: Dict[str, List[Dict[str, Any]]] = {}
        self.raw: Dict[str, List[Dict[str, Any]]] = {}
        self.listings: List[List[Any]] = []
        self.fired = 0
        self.shared_time_or_task = False
        self.names: Dict[str, str] = {}
        self.name_clash = False
        self.shared_default = False
        self.late_tasks = 0

    def close(self) -> None:
        self.loop.close()
        AsyncBroker.global_task_registry.clear()

    @staticmethod
    def raw_entry(e: Dict[str, Any]) -> Dict[str, Any]:
        d: Dict[str, Any] = {"args": [e["tag"]]}
        if e["kind"] in ("cron", "both"):
            d["cron"] = e["cron"]
        if e["kind"] in ("time", "both"):
            d["time"] = TIMES[e["t"]]
        if e["extra"]:
            d["comment"] = "extra key"
            d["kwargs"] = {"k": e["tag"]}
        return d

    def apply(self, op: Dict[str, Any], out: Outcome) -> None:
        self.ops.append(op)
        o = op["op"]
        if o == "setup":
            if op.get("shared_default"):
                # the documented way to make shared tasks kickable: they are sent THROUGH the own broker, but still are tasks of the shared one
                self.shared.default_broker(self.broker)
                self.shared_default = True
            first_own = next((f"task{ti}" for ti, t in enumerate(op["tasks"]) if t["where"] == "own"), None)
            for ti, t in enumerate(op["tasks"]):
                name = key_ = f"task{ti}"
                if t["where"] == "shared" and t.get("clash") and first_own:
                    name = first_own
                    self.name_clash = True
                self.names[key_] = name
                raw = [self.raw_entry(e) for e in t["entries"]]

                def f(*a: Any, **k: Any) -> None:
                    return None

                f.__module__ = __name__
                f.__name__ = name
                br = self.broker if t["where"] == "own" else self.shared
                if t.get("attach_later"):
                    self.tasks.append(br.register_task(f, task_name=name))
                    self.tasks[-1].labels["schedule"] = raw
                else:
                    self.tasks.append(br.register_task(f, task_name=name, schedule=raw))
                self.raw[key_] = raw
                if t["where"] == "own":
                    self.model[key_] = [dict(r) for r in raw]
            for name, lst in self.model.items():
                times = [r["time"] for r in lst if "time" in r]
                if len(times) != len(set(times)) or len(lst) >= 2:
                    self.shared_time_or_task = True
            return
        if o == "add_task":
            # a task registered on the own broker at run time, after the source may already have been used
            key_ = f"late{len(self.raw)}"
            self.names[key_] = key_
            raw = [self.raw_entry(e) for e in op["entries"]]

            def lf(*a: Any, **k: Any) -> None:
                return None

            lf.__module__ = __name__
            lf.__name__ = key_
            self.tasks.append(self.broker.register_task(lf, task_name=key_, schedule=raw))
            self.raw[key_] = raw
            self.model[key_] = [dict(r) for r in raw]
            self.late_tasks += 1
            return
        if o == "list":
            got = self.loop.run_until_complete(self.source.get_schedules())
            self.listings.append(got)
            self.compare_listing(got, out)
            return
        if o == "fire":
            flat = [s for l in self.listings for s in l]
            if not flat:
                return
            s = flat[op["k"] % len(flat)]
            before_sent = len(self.broker.sent)
            before = {n: list(self.tasks[i].labels.get("schedule", [])) for i, n in enumerate(self.raw)}
            self.loop.run_until_complete(self.scheduler.on_ready(self.source, s))
            self.fired += 1
            if len(self.broker.sent) != before_sent + 1:
                out.add("C16.b", f"firing {s.task_name} args={s.args} sent {len(self.broker.sent) - before_sent} messages")
            else:
                tm = self.broker.formatter.loads(self.broker.sent[-1].message)
                try:
                    tm.parse_labels()
                except Exception as exc:  # noqa: BLE001
                    out.add("C16.b", f"the labels of the fired message cannot be decoded by the receiving side: {type(exc).__name__}: {exc}")
                    return
                if tm.task_name != s.task_name or tm.args != s.args or tm.kwargs != s.kwargs or tm.labels.get("schedule_id") != s.schedule_id:
                    out.add("C16.b", f"fired message {tm.task_name} {tm.args} {tm.kwargs} sid={tm.labels.get('schedule_id')} != schedule {s.task_name} {s.args} {s.kwargs} sid={s.schedule_id}")
            # model + validity of the removal
            for i, n in enumerate(self.raw):
                after = list(self.tasks[i].labels.get("schedule", []))
                b4 = before[n]
                time_only = s.cron is None and s.time is not None
                expect_removal = time_only and self.names[n] == s.task_name and n in self.model and any(r.get("time") == s.time for r in b4)
                if not expect_removal:
                    if len(after) != len(b4) or any(x is not y for x, y in zip(after, b4)):
                        out.add("C16.d", f"firing {s.task_name} (cron={s.cron}, time={s.time}) changed the entries of {n}: {len(b4)} -> {len(after)}")
                    continue
                removed = [x for x in b4 if not any(x is y for y in after)]
                if len(after) != len(b4) - 1 or len(removed) != 1:
                    out.add("C16.d", f"firing time entry {s.time} of {n} removed {len(b4) - len(after)} entries (expected exactly one)")
                elif removed[0].get("time") != s.time:
                    out.add("C16.d", f"firing time entry {s.time} of {n} removed an entry with time {removed[0].get('time')}")
                elif [x for x in b4 if x is not removed[0]] != after or any(x is not y for x, y in zip([x for x in b4 if x is not removed[0]], after)):
                    out.add("C16.d", f"firing time entry {s.time} of {n} reordered or replaced other entries")
                else:
                    # update the model: remove the same entry (by position)
                    idx = next(k for k, x in enumerate(b4) if x is removed[0])
                    self.model[n].pop(idx)

    def check(self, out: Outcome) -> None:
        """Final check only: listing is itself an operation of the source (it may refresh internal state), so
        it is not performed behind the history's back after every step."""
        got = self.loop.run_until_complete(self.source.get_schedules())
        self.compare_listing(got, out)

    def compare_listing(self, got: List[Any], out: Outcome) -> None:
        def key(task: str, r: Dict[str, Any]) -> Any:
            return (task, r.get("cron"), r.get("time").isoformat() if r.get("time") else None, repr(r.get("args", [])), repr(r.get("kwargs", {})))
        want = sorted((key(self.names[n], r) for n, lst in self.model.items() for r in lst if "cron" in r or "time" in r), key=repr)
        have = sorted(((s.task_name, s.cron, s.time.isoformat() if s.time else None, repr(s.args), repr(s.kwargs)) for s in got), key=repr)
        if want != have:
            out.add("C16.c", f"get_schedules() lists {have}, declared cron/time entries of own-broker tasks are {want}")


def run_label_history(case: Dict[str, Any]) -> Outcome:
    out = Outcome()
    out.clauses_checked = ["C16.b", "C16.c", "C16.d"]
    sim = LabelSim()
    try:
        for op in case["ops"]:
            sim.apply(op, out)
            if out.violations:
                break
        if not out.violations:
            sim.check(out)
        finish(sim, out)
    finally:
        sim.close()
    return out


def finish(sim: LabelSim, out: Outcome) -> None:
    out.nontrivial = bool(sim.shared_time_or_task and sim.fired)
    out.classes = [c for c, f in (("fired", sim.fired), ("shared_time_or_task", sim.shared_time_or_task),
                                  ("shared_broker_task", any(t.broker is sim.shared for t in sim.tasks)), ("shared_task_with_own_name", sim.name_clash), ("shared_broker_defaults_to_own", sim.shared_default), ("task_registered_after_first_use", sim.late_tasks > 0),
                                  ("stale_fire", sim.fired >= 2 and len(sim.listings) >= 1)) if f]
    out.trace = {"ops": len(sim.ops), "fired": sim.fired, "listings": len(sim.listings)}


def make_machine(ctx: Any, ctx_state: Dict[str, Any]) -> Any:
    class LabelSourceMachine(RuleBasedStateMachine):
        def __init__(self) -> None:
            super().__init__()
            self.sim = LabelSim()

        def _step(self, op: Dict[str, Any]) -> None:
            out = Outcome()
            out.clauses_checked = ["C16.b", "C16.c", "C16.d"]
            self.sim.apply(op, out)
            engine.machine_report(ctx, ctx_state, {"part": "label_source", "ops": list(self.sim.ops)}, out, final=False)

        @initialize(tasks=setup_strategy(), shared_default=st.sampled_from([False, False, True]))
        def setup(self, tasks: Any, shared_default: bool) -> None:
            self._step({"op": "setup", "tasks": tasks, "shared_default": shared_default})

        @rule()
        def list_(self) -> None:
            self._step({"op": "list"})

        @rule(entries=st.lists(entry_strategy(), min_size=1, max_size=3))
        def add_task(self, entries: Any) -> None:
            if self.sim.late_tasks < 2:
                self._step({"op": "add_task", "entries": entries})

        @rule(k=st.integers(0, 40))
        def fire(self, k: int) -> None:
            self._step({"op": "fire", "k": k})

        @rule()
        def final_listing(self) -> None:
            # a listing behind which nothing is hidden: compares get_schedules() with the model, and it is a step of
            # the history (recorded as a list op), so the shrunk history replays identically
            self._step({"op": "list"})

        def teardown(self) -> None:
            out = Outcome()
            out.clauses_checked = ["C16.c", "C16.d"]
            finish(self.sim, out)
            engine.machine_report(ctx, ctx_state, {"part": "label_source", "ops": list(self.sim.ops)}, out, final=True)
            self.sim.close()

    return LabelSourceMachine


def parts(tier: str) -> List[Part]:
    if tier == "thorough":
        return [Part("on_ready", "given", shards=8, examples=12000, strategy=on_ready_cases, soft_deadline_s=3000),
                Part("on_ready_cov", "covguided", shards=4, examples=12000, strategy=on_ready_cases, soft_deadline_s=3000),     # libFuzzer-driven, coverage of `taskiq` as guidance
                Part("label_source", "machine", shards=8, examples=6000, machine=make_machine, steps=25, soft_deadline_s=3000)]
    return [Part("on_ready", "given", shards=4, examples=600, strategy=on_ready_cases, soft_deadline_s=100),
            Part("label_source", "machine", shards=4, examples=250, machine=make_machine, steps=15, soft_deadline_s=120)]


def run_case(case: Dict[str, Any]) -> Outcome:
    if "ops" in case:
        return run_label_history(case)
    return run_on_ready(case)


SELFTEST_CASES = [
    {"args": [1], "kwargs": {"a": None}, "labels": {"x": {"i": "5"}}, "kind": "time", "pre": "async", "post": "sync", "cancel": False,
     "kick_fails": False, "codec": "json", "sid": "abc"},
    {"part": "label_source", "ops": [{"op": "setup", "tasks": [{"where": "own", "entries": [{"kind": "time", "cron": "* * * * *", "t": 0, "tag": 1, "extra": False},
                                                                                              {"kind": "time", "cron": "* * * * *", "t": 0, "tag": 2, "extra": True}]}]},
                                     {"op": "list"}, {"op": "fire", "k": 1}, {"op": "fire", "k": 1}]},
]


# ---------------------------------------------------------------- part 3: the callbacks of the RIGHT source, through the real loop
#
# on_ready gets the source together with the schedule from the scheduler loop.  With several sources (answering their
# listing at different speeds) every schedule must be announced to, cancelled by and reported back to the source that
# listed it.

from vt.harness import sched as _sched
from vt.harness import clock as _clock

_SEC = 10**6
_MIN = 60 * _SEC


def loop_cases() -> Any:
    def fin(d: Dict[str, Any]) -> Dict[str, Any]:
        base = d["base"] // _MIN * _MIN + d["bsec"] * _SEC
        sources = []
        for si, (lat, shots, ncron, cancel_first) in enumerate(d["sources"]):
            ents: List[Dict[str, Any]] = [{"id": f"c{si}_{j}", "cron": "* * * * *", "offset": None, "add_at": 0, "remove_at": None} for j in range(ncron)]
            for j, off in enumerate(shots):
                ents.append({"id": f"o{si}_{j}", "t_off_us": off, "naive": True, "add_at": 0, "remove_at": None})
            cancel = [ents[0]["id"]] if cancel_first and ents else []
            # a source whose post_send raises once for its last entry - AFTER that message has been sent
            post_fail = [ents[-1]["id"]] if d["post_fails"] and ents and ents[-1]["id"] not in cancel else []
            sources.append({"kind": "scripted", "entries": ents, "fail_polls": [], "list_latency": lat, "cancel": cancel, "post_fail": post_fail})
        return {"loop": True, "base_us": base, "horizon_min": 2, "sources": sources, "latencies": [0.0], "kick_fail": []}

    src = st.tuples(st.sampled_from([0.0, 0.0, 0.05, 0.2, 1.5]), st.lists(st.sampled_from([-30 * _SEC, 0, 20 * _SEC, 61 * _SEC, 90 * _SEC]), max_size=2),
                    st.integers(0, 2), st.booleans())
    return st.fixed_dictionaries({
        "base": st.integers(_clock.to_us(dtm.datetime(2024, 1, 1, tzinfo=_clock.UTC)), _clock.to_us(dtm.datetime(2025, 1, 1, tzinfo=_clock.UTC))),
        "bsec": st.sampled_from([0, 10, 30, 59]),
        "post_fails": st.sampled_from([False, False, True]),
        "sources": st.lists(src, min_size=2, max_size=3),
    }).map(fin)


def run_loop_case(case: Dict[str, Any]) -> Outcome:
    out = Outcome()
    out.clauses_checked = ["C16.a", "C16.b"]
    res = _sched.run_sched(case)
    if res["crashed"] or res["deadlock"]:
        out.add("C16.a", f"scheduler loop stopped: {res['loop_exc']}")
    owner = {e["id"]: f"s{si}" for si, s in enumerate(case["sources"]) for e in s["entries"]}
    cancelled = {i for s in case["sources"] for i in s.get("cancel", ())}
    hooks = res.get("hooks", {})
    for name, hs in hooks.items():
        for t, hook, sid in hs:
            if owner.get(sid) != name:
                out.add("C16.a", f"{hook} of source {name} was called for schedule {sid}, which is listed by source {owner.get(sid)}")
    kicks = res.get("kicks", [])
    for k in kicks:
        sid = k["tag"]
        if sid in cancelled:
            out.add("C16.a", f"schedule {sid} is cancelled by its source's pre_send but was sent at {k['t']}")
            continue
        own = hooks.get(owner.get(sid, "?"), [])
        pre = [h for h in own if h[1] == "pre_send" and h[2] == sid and h[0] <= k["t"]]
        post = [h for h in own if h[1] == "post_send" and h[2] == sid and h[0] >= k["t"]]
        if not pre:
            out.add("C16.a", f"schedule {sid} was sent without pre_send of its own source {owner.get(sid)} before it")
        if k["ok"] and not post:
            out.add("C16.a", f"schedule {sid} was sent but post_send of its own source {owner.get(sid)} was not called")
    per: Dict[Any, int] = {}
    is_cron = {e["id"]: "cron" in e for s_ in case["sources"] for e in s_["entries"]}
    for k in kicks:
        key = (k["tag"], k["t"] // _MIN if is_cron.get(k["tag"]) else None)
        per[key] = per.get(key, 0) + 1
    # with a source that needs time to answer, a one-shot sent between the moment the listing was taken and the moment it is
    # returned is listed once more (a stale answer of the source, outside this property): count only with instant listings
    instant = all(not s_.get("list_latency") for s_ in case["sources"])
    for (sid, minute), n_ in sorted(per.items(), key=repr):
        if n_ > 1 and instant:
            out.add("C16.b", f"one firing of schedule {sid} produced {n_} messages" + (" (its source's post_send raised once after the send)" if any(sid in s_.get("post_fail", ()) for s_ in case["sources"]) else ""))
    for sid in cancelled:
        if any(h[1] == "post_send" and h[2] == sid for hs in hooks.values() for h in hs):
            out.add("C16.a", f"post_send was called for the cancelled schedule {sid}")
    lats = [s.get("list_latency", 0) for s in case["sources"]]
    out.nontrivial = bool(kicks and any(a > b for a, b in zip(lats, lats[1:])))
    out.classes = ["loop"] + (["earlier_source_answers_later"] if any(a > b for a, b in zip(lats, lats[1:])) else []) + (["cancelling_source"] if cancelled else []) + (["post_send_raises_once"] if any(s_.get("post_fail") for s_ in case["sources"]) else [])
    out.trace = {"kicks": [[k["tag"], k["ok"]] for k in kicks[:12]], "hooks": {n: [[h[1], h[2]] for h in hs[:8]] for n, hs in hooks.items()}}
    return out


_parts12 = parts
_run12 = run_case


def parts(tier: str) -> List[Part]:  # type: ignore[no-redef]
    ps = _parts12(tier)
    ps.append(Part("loop_sources", "given", shards=2, examples=3000 if tier == "thorough" else 200, strategy=loop_cases, soft_deadline_s=600))
    return ps


def run_case(case: Dict[str, Any]) -> Outcome:  # type: ignore[no-redef]
    if case.get("loop"):
        return run_loop_case(case)
    return _run12(case)
