"""Strategies shared by the worker-harness properties (C01-C07, C10, C12)."""
from __future__ import annotations

from typing import Any, Dict, List

from hypothesis import strategies as st

G = 0.05


def r9(x: float) -> float:
    return round(float(x), 9)


def times(max_units: int = 80) -> Any:
    """Instants: multiples of 0.05 s, plus points on/around the receiver's 0.3 s poll grid."""
    grid = st.integers(0, max_units).map(lambda k: r9(k * G))
    poll = st.tuples(st.integers(0, max(1, int(max_units * G / 0.3))), st.sampled_from([-1e-6, 0.0, 1e-6])).map(
        lambda ke: r9(max(0.0, ke[0] * 0.3 + ke[1])))
    return st.one_of(grid, grid, poll)


DURS = [0.0, 0.05, 0.1, 0.3, 0.35, 1.0, 3.0]

BAD = st.one_of(
    st.fixed_dictionaries({"v": st.just("bytes"), "hex": st.binary(min_size=0, max_size=12).map(bytes.hex)}),
    # short payloads a broker may legitimately deliver: empty, "-1", "0", "null", "{}", "[]"
    st.fixed_dictionaries({"v": st.just("bytes"), "hex": st.sampled_from([b"", b"-1", b"0", b"null", b"{}", b"[]", b"-1\n"]).map(bytes.hex)}),
    # the two shortest ones again, on their own: payloads that look like values the worker uses internally (its end-of-queue mark is b"-1")
    st.fixed_dictionaries({"v": st.just("bytes"), "hex": st.sampled_from([b"-1", b"-1", b""]).map(bytes.hex)}),
    st.fixed_dictionaries({"v": st.just("truncate"), "keep": st.integers(0, 60)}),
    st.fixed_dictionaries({"v": st.sampled_from(["labels_list", "no_task_name", "args_not_list", "bad_label_type",
                                                 "unparsable_label", "not_object", "null"])}),
)


def message(kinds=("async", "async", "async", "sync", "bad", "unknown"),
            outs=("ret", "ret", "ValueError", "KeyboardInterrupt", "SystemExit", "CancelledError", "MyBase", "NoResult"),
            durs=DURS, acks=(None, "sync", "async"), timeouts=(None,), at=None, cleanups=(0,)) -> Any:
    def build(d: Dict[str, Any]) -> Dict[str, Any]:
        if d["kind"] != "bad":
            d.pop("bad")
        elif d.pop("raw"):
            d["ack"] = None        # delivered as plain bytes, not wrapped in an ackable message
        d.pop("raw", None)
        if d["kind"] != "unknown":
            d.pop("uname")
        if not d["cleanup"] or d["kind"] not in ("async", "shared", "late", "dyn", "plaincls"):
            d.pop("cleanup")
        return d

    return st.fixed_dictionaries({
        "kind": st.sampled_from(list(kinds)),
        "at": at if at is not None else times(),
        "dur": st.sampled_from(list(durs)),
        "out": st.sampled_from(list(outs)),
        "ack": st.sampled_from(list(acks)),
        "timeout": st.sampled_from(list(timeouts)),
        "cleanup": st.sampled_from(list(cleanups)),
        "bad": BAD,
        "raw": st.booleans(),
        # names no task is registered under - some of them look like a registered one (other module part, other case, stray separators)
        "uname": st.sampled_from(["no.such.task", "no.such.task", "other.module:atask", "elsewhere:stask", "Atask", "atask.", "atask:", ":atask", "pkg.mod:atask:", "atask "]),
    }).map(build)


def sort_msgs(msgs: List[Dict[str, Any]]) -> List[Dict[str, Any]]:
    return sorted(msgs, key=lambda m: m["at"])


def horizon_for(sc: Dict[str, Any], extra: float = 6.0) -> float:
    msgs = sc["msgs"]
    mx = max([m["at"] for m in msgs], default=0.0)
    tot = sum(min(m["dur"], 50.0) + m.get("cleanup", 0) for m in msgs)
    lat = sc.get("save_latency", 0.0) * len(msgs)
    return r9(mx + tot + lat + (sc.get("stop") or 0.0) + (sc.get("W") or 0.0) + extra)
