import asyncio, sys, logging, datetime as dtm
sys.path.insert(0, __import__("os").path.dirname(__import__("os").path.abspath(__file__)))
from vloop import VirtualTimeLoop
import taskiq.cli.scheduler.run as run_mod
from taskiq import AsyncBroker, ScheduleSource, ScheduledTask, TaskiqScheduler
logging.disable(logging.CRITICAL)

BASE = dtm.datetime(2024, 3, 10, 11, 59, 30, 500000, tzinfo=dtm.timezone.utc)
class FakeDT(dtm.datetime):
    @classmethod
    def now(cls, tz=None):
        t = BASE + dtm.timedelta(seconds=asyncio.get_event_loop().time())
        if tz is None:
            return t.replace(tzinfo=None)   # process local zone == UTC
        return t.astimezone(tz)
    @classmethod
    def utcnow(cls):
        return cls.now().replace(tzinfo=None)
run_mod.datetime = FakeDT

class B(AsyncBroker):
    def __init__(self): super().__init__(); self.sent=[]
    async def kick(self, m): self.sent.append((FakeDT.now(dtm.timezone.utc), m.task_name, m.labels.get("schedule_id")))
    async def listen(self): yield b""
class Src(ScheduleSource):
    def __init__(self, sch): self.sch = list(sch); self.polls=[]
    async def get_schedules(self):
        self.polls.append(FakeDT.now(dtm.timezone.utc)); return list(self.sch)
    def post_send(self, task):
        if task.time is not None and task.cron is None:
            self.sch = [s for s in self.sch if s.schedule_id != task.schedule_id]

async def main(Ts):
    b = B()
    @b.task(task_name="t")
    def t(): pass
    src = Src([ScheduledTask(task_name="t", labels={}, args=[], kwargs={}, time=T, schedule_id=f"s{i}") for i,T in enumerate(Ts)]
              + [ScheduledTask(task_name="t", labels={}, args=[], kwargs={}, cron="*/2 * * * *", schedule_id="c")])
    sch = TaskiqScheduler(b, [src])
    task = asyncio.ensure_future(run_mod.run_scheduler_loop(sch))
    await asyncio.sleep(400)
    task.cancel()
    print("polls", [p.strftime("%H:%M:%S.%f") for p in src.polls])
    for s in b.sent: print(s[0].strftime("%H:%M:%S.%f"), s[2])

loop = VirtualTimeLoop(); asyncio.set_event_loop(loop)
U = dtm.timezone.utc
loop.run_until_complete(main([dtm.datetime(2024,3,10,12,1,0,500000,tzinfo=U), dtm.datetime(2024,3,10,12,2,0,tzinfo=U), dtm.datetime(2024,3,10,12,3,30,tzinfo=U), dtm.datetime(2024,3,10,12,4,1,tzinfo=U), dtm.datetime(2024,3,10,12,5,1,1,tzinfo=U)]))
