"""C03 prototype: failing hooks / backend, then saturation probe."""
import sys, os, time, collections
sys.path.insert(0, os.path.dirname(os.path.abspath(__file__)))
from wh import run_scenario
from hypothesis import given, settings, strategies as st, seed, HealthCheck
G=0.05
tm = st.integers(0,40).map(lambda k: round(k*G,9))
msg = st.fixed_dictionaries(dict(kind=st.sampled_from(["async","async","sync","bad","unknown"]), at=tm, dur=st.sampled_from([0.0,0.05,0.3,1.0]),
    out=st.sampled_from(["ret","ValueError","KeyboardInterrupt","NoResult","MyBase"]), ack=st.sampled_from([None,"sync","async"]), timeout=st.sampled_from([None,None,0.3])))
hookspec = st.dictionaries(st.sampled_from(["pre_execute","post_execute","post_save","on_error"]), st.tuples(st.booleans(), st.booleans()), max_size=4)
scen = st.fixed_dictionaries(dict(A=st.integers(1,4), P=st.integers(0,3), ack_type=st.sampled_from(["when_received","when_executed","when_saved"]),
    msgs=st.lists(msg, min_size=0, max_size=10), fail_saves=st.sets(st.integers(0,8), max_size=4), mws=st.lists(hookspec, max_size=2)))
cnt=[0]; stats=collections.Counter()
@seed(int(os.environ.get("VERIF_SEED","1")))
@settings(max_examples=int(os.environ.get("N","1500")), deadline=None, database=None, suppress_health_check=list(HealthCheck))
@given(scen)
def test(sc):
    sc=dict(sc); hist=sorted(sc["msgs"], key=lambda m:m["at"]); cnt[0]+=1
    probe=[dict(kind="async", at=5.0, dur=0.0, out="ret", ack=None, timeout=None, barrier=True) for _ in range(sc["A"])]
    sc["msgs"]=hist+probe; sc["ends"]=True; sc["stop"]=None; sc["W"]=None; sc["N"]=None
    # probes must not hit failing pre_execute hooks: hooks fail only for history messages -> use arg index check
    res=run_scenario(sc)
    tr=res["trace"]; n=len(hist)
    ok=[e for e in tr if e[1]=="barrier_ok"]; to=[e for e in tr if e[1]=="barrier_timeout"]
    failing_pre = any(h.get("pre_execute",(0,False))[1] for h in sc["mws"])
    stats["failing_hooks"]+= any(f for h in sc["mws"] for (_,f) in h.values())
    if failing_pre: return   # probes themselves would be killed by the failing pre_execute hook
    assert res["returned"], ("noreturn", sc)
    assert len(ok)==sc["A"] and not to, ("slot leak?", len(ok), len(to), sc, tr)
t=time.time()
try: test(); print("OK")
except AssertionError as e: print("FOUND", str(e)[:2500])
print(cnt[0], time.time()-t, stats)
