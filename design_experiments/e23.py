"""C15 prototype: scheduler loop under virtual clock with failures; oracle b/c/d."""
import asyncio, sys, os, logging, random, collections, datetime as dtm
sys.path.insert(0, os.path.dirname(os.path.abspath(__file__)))
from vloop import VirtualTimeLoop
import taskiq.cli.scheduler.run as R
from taskiq import AsyncBroker, ScheduleSource, ScheduledTask, TaskiqScheduler
from e14 import match
logging.disable(logging.CRITICAL)
U=dtm.timezone.utc
def run_case(rng):
    loop=VirtualTimeLoop(); asyncio.set_event_loop(loop)
    loop.set_exception_handler(lambda l,c: None)
    BASE=dtm.datetime(2024,3,10,rng.randint(0,23),rng.randint(0,59),rng.randint(0,59),rng.choice([0,1,500000,999999]),tzinfo=U)
    class FakeDT(dtm.datetime):
        @classmethod
        def now(cls,tz=None):
            t=BASE+dtm.timedelta(seconds=loop.time())
            return t.astimezone(tz) if tz else t.replace(tzinfo=None)
        @classmethod
        def utcnow(cls): return cls.now()
    R.datetime=FakeDT
    horizon_min=rng.randint(3,8)
    kicks=[]; polls=collections.defaultdict(list)
    kick_fail=set(rng.sample(range(40), rng.choice([0,0,2,5]))); kn=[0]
    lat=rng.choice([0.0,0.0,0.5,2.0])
    class B(AsyncBroker):
        async def kick(self,m):
            k=kn[0]; kn[0]+=1
            t=FakeDT.now(U); sid=m.labels.get("schedule_id")
            if lat: await asyncio.sleep(lat)
            if k in kick_fail:
                kicks.append((t,sid,False)); raise RuntimeError("send failed")
            kicks.append((t,sid,True))
        async def listen(self): yield b""
    b=B()
    @b.task(task_name="t")
    def t(): pass
    class Src(ScheduleSource):
        def __init__(self,name,sch,fail): self.name=name; self.sch=list(sch); self.fail=fail; self.n=0
        async def get_schedules(self):
            k=self.n; self.n+=1
            polls[self.name].append((FakeDT.now(U), k in self.fail))
            if k in self.fail: raise RuntimeError("source down")
            return list(self.sch)
        def post_send(self,task):
            if task.cron is None: self.sch=[s for s in self.sch if s.schedule_id!=task.schedule_id]
    srcs=[]; allsch={}
    for si in range(rng.randint(1,3)):
        sch=[]
        for j in range(rng.randint(0,3)):
            mf=rng.choice(["*","*/2","*/3",str(rng.randint(0,59)),f"{rng.randint(0,29)}-{rng.randint(30,59)}",",".join(str(rng.randint(0,59)) for _ in range(3))])
            s=ScheduledTask(task_name="t",labels={},args=[],kwargs={},cron=f"{mf} * * * *",schedule_id=f"c{si}_{j}"); sch.append(s); allsch[s.schedule_id]=(si,s)
        for j in range(rng.randint(0,3)):
            off=rng.choice([rng.uniform(-120,horizon_min*60), rng.randint(0,horizon_min)*60+rng.choice([0,0.5,1.0,1.000001,-0.5,59.5])-BASE.second-BASE.microsecond/1e6])
            T=BASE+dtm.timedelta(seconds=off); T=T.replace(microsecond=T.microsecond)
            s=ScheduledTask(task_name="t",labels={},args=[],kwargs={},time=T,schedule_id=f"o{si}_{j}"); sch.append(s); allsch[s.schedule_id]=(si,s)
        srcs.append(Src(f"s{si}",sch,set(rng.sample(range(10),rng.choice([0,0,1,3])))))
    sched=TaskiqScheduler(b,srcs)
    async def main():
        task=asyncio.ensure_future(R.run_scheduler_loop(sched))
        end=(BASE.replace(second=0,microsecond=0)+dtm.timedelta(minutes=horizon_min,seconds=30)-BASE).total_seconds()
        await asyncio.sleep(end)
        crashed = task.done()
        task.cancel()
        return crashed
    crashed=loop.run_until_complete(main())
    for tk in asyncio.all_tasks(loop): tk.cancel()
    loop.run_until_complete(asyncio.sleep(0)); loop.close(); asyncio.set_event_loop(None)
    v=[]
    if crashed: v.append("C15.d loop stopped")
    # a: polls
    m0=BASE.replace(second=0,microsecond=0)
    for name,pl in polls.items():
        exp=[BASE]+[m0+dtm.timedelta(minutes=k) for k in range(1,horizon_min+1)]
        got=[p[0] for p in pl]
        if got!=exp: v.append(f"C15.a polls {name} {got[:4]} exp {exp[:4]}")
    # b: cron
    for sid,(si,s) in allsch.items():
        pl=polls[f"s{si}"]
        if s.cron:
            for (pt,failed) in pl:
                minute=pt.replace(second=0,microsecond=0)
                ks=[k for k in kicks if k[1]==sid and minute<=k[0]<minute+dtm.timedelta(minutes=1)]
                exp=0 if failed else (1 if match(s.cron,pt) else 0)
                if len(ks)!=exp: v.append(f"C15.b cron {sid} {s.cron} minute {minute.time()} kicks {len(ks)} exp {exp}")
        else:
            ks=[k for k in kicks if k[1]==sid]
            touched = any(not k[2] for k in ks) or any(f for _,f in pl)
            T=s.time
            if T> m0+dtm.timedelta(minutes=horizon_min): continue
            if touched:
                if any(k[0]<T and T>BASE for k in ks): v.append("C15.c early")
                continue
            if len(ks)!=1: v.append(f"C15.c one-shot {sid} T={T.time()} kicks {[k[0].time().isoformat() for k in ks]}")
            else:
                kt=ks[0][0]; due=max(T,BASE)
                if not (due<=kt<=due+dtm.timedelta(seconds=1)): v.append(f"C15.c timing {sid} T={T} kick={kt}")
    return v,(BASE,)
if __name__=="__main__":
    bad=collections.Counter(); ex={}
    for seed in range(int(os.environ.get("N","400"))):
        v,info=run_case(random.Random(seed))
        for x in v:
            k=x[:14]; bad[k]+=1; ex.setdefault(k,(seed,x))
    print(bad)
    for k,e in ex.items(): print(e)
