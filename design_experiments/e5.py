import asyncio, sys, logging
from taskiq import InMemoryBroker
logging.disable(logging.CRITICAL)
async def main():
    b = InMemoryBroker(await_inplace=True)
    got = {}
    @b.task(task_name="t", base=1)
    async def t(a, b: int, c=None, d: float = 0.0):
        got["v"] = (a, b, c, d)
    await t.kiq("7", "5", "x", "2.5")
    print("C08:", got)
    await t.kiq("7", b="5", d="2.5")
    print("C08 kw:", got)
    # C09
    print("declared before:", t.labels)
    await t.kicker().with_labels(extra=2).kiq(1, 2)
    print("declared after :", t.labels)
    k = t.kicker().with_task_id("zzz")
    print(t.kicker().custom_task_id)
asyncio.run(main())
