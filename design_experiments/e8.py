import asyncio, logging, contextlib
from taskiq import InMemoryBroker, TaskiqDepends, Context
from taskiq.receiver import Receiver
from taskiq.abc.broker import AckableMessage
logging.disable(logging.CRITICAL)
log = []
def mk(name, *deps_names):
    pass
def C():
    log.append("open C"); 
    try: yield "c"
    except BaseException as e: log.append(f"C saw {type(e).__name__}"); raise
    finally: log.append("close C")
async def Bdep(c: str = TaskiqDepends(C)):
    log.append("open B")
    try: yield "b"
    except BaseException as e: log.append(f"B saw {type(e).__name__}"); raise
    finally: log.append("close B")
class CM:
    def __enter__(self): log.append("open CM"); return self
    def __exit__(self, *a): log.append(f"close CM {a[0].__name__ if a[0] else None}")
class ACM:
    async def __aenter__(self): log.append("open ACM"); return self
    async def __aexit__(self, *a): log.append(f"close ACM {a[0].__name__ if a[0] else None}")
def cmdep(): return CM()
def acmdep(b: str = TaskiqDepends(Bdep)): return ACM()
async def main(use_cache, fail, propagate):
    log.clear()
    b = InMemoryBroker()
    class RB(type(b.result_backend)):
        async def set_result(self, tid, res): log.append("set_result"); await super().set_result(tid,res)
    b.result_backend = RB()
    @b.task(task_name="t")
    async def t(x: str = TaskiqDepends(Bdep, use_cache=use_cache), cm: CM = TaskiqDepends(cmdep), acm: ACM = TaskiqDepends(acmdep)):
        log.append("task")
        if fail: raise ValueError("boom")
    r = Receiver(b, max_async_tasks=10, run_startup=False, propagate_exceptions=propagate)
    m = b.formatter.dumps(t.kicker().with_task_id("id1")._prepare_message()).message
    await r.callback(AckableMessage(data=m, ack=lambda: log.append("ack")))
    print(use_cache, fail, propagate, log)
for uc in (True, False):
    for fail in (False, True):
        for prop in (True, False):
            asyncio.run(main(uc, fail, prop))
