"""C09.a/b prototype: typed labels end to end (first delivery + retries), all bundled codecs."""
import asyncio, sys, os, logging, math, struct, collections
from taskiq import AsyncBroker, TaskiqDepends, Context, SimpleRetryMiddleware, TaskiqMiddleware
from taskiq.kicker import AsyncKicker
from taskiq.receiver import Receiver
from taskiq.serializers import PickleSerializer
from taskiq.formatters.json_formatter import JSONFormatter
from taskiq.brokers.inmemory_broker import InmemoryResultBackend
from hypothesis import given, settings, strategies as st, seed, HealthCheck
logging.disable(logging.CRITICAL)
RESERVED={"timeout","retry_on_error","max_retries","_retries","schedule","schedule_id","task_name","X-Taskiq-requeue"}
val=st.one_of(st.integers(-10**50,10**50), st.floats(), st.booleans(), st.text(max_size=8), st.binary(max_size=8), st.sampled_from(["True","5","1.5","","nan"]))
labels=st.dictionaries(st.text(min_size=1,max_size=5).filter(lambda k: k not in RESERVED), val, max_size=5)
def same(a,b):
    if type(a)!=type(b): return False
    if isinstance(a,float): return struct.pack("d",a)==struct.pack("d",b) or (math.isnan(a) and math.isnan(b))
    return a==b
class QB(AsyncBroker):
    def __init__(self): super().__init__(); self.q=[]
    async def kick(self,m): self.q.append(m)
    async def listen(self): yield b""
fails=collections.Counter(); ex={}; cnt=[0]
@seed(int(os.environ.get("VERIF_SEED","1")))
@settings(max_examples=int(os.environ.get("N","1500")), deadline=None, database=None, suppress_health_check=list(HealthCheck))
@given(labels, labels, st.sampled_from(["json","pickle","jsonfmt"]), st.integers(0,3))
def test(decl, extra, codec, nfail):
    cnt[0]+=1
    async def go():
        b=QB(); b.result_backend=InmemoryResultBackend()
        if codec=="pickle": b.serializer=PickleSerializer()
        if codec=="jsonfmt": b.formatter=JSONFormatter()
        seen=[]
        class MW(TaskiqMiddleware):
            def pre_execute(self, message): seen.append(("mw",dict(message.labels))); return message
        b.add_middlewares(MW(), SimpleRetryMiddleware(default_retry_count=10, default_retry_label=True, no_result_on_retry=False))
        runs=[0]
        async def t(ctx: Context = TaskiqDepends()):
            seen.append(("ctx",dict(ctx.message.labels))); runs[0]+=1
            if runs[0]<=nfail: raise ValueError("x")
            return 1
        b.register_task(t, task_name="t")
        r=Receiver(b,max_async_tasks=5,run_startup=False)
        want={**decl,**extra}
        await AsyncKicker("t",b,dict(decl)).with_labels(**extra).with_task_id("T").kiq()
        while b.q: await r.callback(b.q.pop(0).message)
        res=await b.result_backend.get_result("T")
        seen.append(("res",dict(res.labels)))
        return want,seen,runs[0]
    want,seen,runs=asyncio.run(go())
    if runs!=nfail+1: fails["runs"]+=1; ex.setdefault("runs",(decl,extra,codec,nfail,runs))
    for where,got in seen:
        for k,v in want.items():
            if k not in got or not same(got[k],v):
                key=(where,type(v).__name__,codec); fails[key]+=1; ex.setdefault(key,(k,v,got.get(k,"<missing>")))
test(); print(cnt[0])
for k,c in fails.most_common(): print(c,k,ex[k])
