import sys, collections, logging, warnings, time
warnings.simplefilter("ignore")
import taskiq, taskiq.cli.worker.run, taskiq.cli.scheduler.run
from taskiq.result import TaskiqResult
from taskiq.serialization import exception_to_python, ExceptionRepr
from taskiq.exceptions import SecurityError
import pydantic
out = collections.Counter(); weird = []; imported = []
mods = sorted(sys.modules)
t=time.time(); n=0
for m in mods:
    mod = sys.modules[m]
    try: names = list(vars(mod))
    except Exception: continue
    for name in names:
        before = set(sys.modules)
        n+=1
        try:
            r = TaskiqResult.model_validate({"is_err": True, "return_value": None, "execution_time": 0.0,
                 "error": {"exc_type": name, "exc_message": ["x"], "exc_module": m}})
            e = r.error
            k = "exc-instance" if isinstance(e, BaseException) else f"NONEXC {type(e)}"
        except SecurityError: k = "SecurityError"
        except pydantic.ValidationError as ve: k = "ValidationError"
        except BaseException as ex: k = f"OTHER {type(ex).__name__}"; weird.append((m,name,repr(ex)[:80]))
        out[k]+=1
        new = set(sys.modules) - before
        if new: imported.append((m, name, sorted(new)[:3]))
print(n, time.time()-t, out)
print(weird[:20]); print(imported[:20])
