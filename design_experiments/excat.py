import threading, datetime, decimal
class ModErr(Exception): pass
class ModBase(BaseException): pass
class Outer:
    class Inner(ValueError): pass
class TwoArgs(Exception):
    def __init__(self, a, b): super().__init__(f"{a}|{b}"); self.a=a; self.b=b
class KwOnly(Exception):
    def __init__(self, *, code=None): super().__init__(code)
class NoArgsKept(Exception):
    def __init__(self, *a): super().__init__()
class WithState(Exception):
    def __init__(self, msg): super().__init__(msg); self.lock = None
class DerivedKeyErr(KeyError): pass
def make_local():
    class Loc(ModErr): pass
    return Loc
def make_local_base():
    class LocB(Exception):
        def __init__(self, a, b=2): super().__init__(a)
    return LocB
Dyn = type("Dyn", (RuntimeError,), {"__module__": "excat"})      # resolvable
DynHidden = type("DynHidden", (RuntimeError,), {"__module__": "nowhere.module"})
class BadRepr:
    def __repr__(self): raise RuntimeError("no repr")
    def __str__(self): raise RuntimeError("no str")
class BadReprExc(Exception):
    def __repr__(self): raise RuntimeError("no repr")
    def __str__(self): raise RuntimeError("no str")
