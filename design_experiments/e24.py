"""C19 prototype: structural oracle (class/args/chain) for JSON and pickle round trips."""
import sys, os, pickle, json, collections, time, importlib
sys.path.insert(0, os.path.dirname(os.path.abspath(__file__)))
import e19
from e19 import *   # generator pieces (runs its own test on import; ignore)
def resolvable(cls):
    mod=sys.modules.get(cls.__module__)
    if mod is None: return False
    obj=mod
    try:
        for part in cls.__qualname__.split("."): obj=getattr(obj,part)
    except AttributeError: return False
    return obj is cls
def strict_json(a):
    try:
        s=json.dumps(a, allow_nan=False); back=json.loads(s)
        s.encode("utf-8")
        return True, back
    except Exception: return False, None
def is_exact(a, back):  # tuples etc are lossy
    return json.dumps(a, sort_keys=True)==json.dumps(back, sort_keys=True) and type(a)==type(back)
def deep_exact(a,b):
    if type(a)!=type(b): return False
    if isinstance(a,list): return len(a)==len(b) and all(deep_exact(x,y) for x,y in zip(a,b))
    if isinstance(a,dict): return list(a)==list(b) and all(deep_exact(a[k],b[k]) for k in a)
    return a==b
def check_json(orig, loaded, path, v, seen):
    """orig: original exception; loaded: result; seen: ids on path"""
    if not isinstance(loaded, BaseException): v.append(f"b not exc at {path}"); return
    cls=type(orig); name=cls.__name__
    args=orig.args
    enc=[strict_json(a) for a in args]
    all_enc=all(ok and deep_exact(a,b) for a,(ok,b) in zip(args,enc))
    norm=tuple(b for _,b in enc)
    rebuild=False
    if resolvable(cls) and all_enc:
        try:
            r=cls(*norm); rebuild = (r.args==norm)
        except Exception: rebuild=False
    if rebuild:
        if type(loaded) is not cls: v.append(f"c class {type(loaded).__name__} != {name} at {path}")
        elif loaded.args!=norm: v.append(f"c args {loaded.args!r} != {norm!r} at {path}")
    else:
        # stand-in: same-named synthetic / generic naming the class
        t=type(loaded)
        ok = (t.__name__==cls.__qualname__ or t.__name__==name or (t is Exception and name in str(loaded.args)) or t is cls)
        if not ok: v.append(f"d standin {t.__module__}.{t.__name__} args={loaded.args!r} for {name} at {path}")
    if loaded.__suppress_context__ != orig.__suppress_context__: v.append(f"e suppress at {path}")
    seen=seen|{id(orig)}
    for attr,use in (("__cause__",True),("__context__",not orig.__suppress_context__)):
        o=getattr(orig,attr); l=getattr(loaded,attr)
        if o is None or not use or id(o) in seen:
            if l is not None: v.append(f"e unexpected {attr} at {path}")
        else:
            if l is None: v.append(f"e lost {attr} at {path}")
            else: check_json(o,l,path+"/"+attr[2:-2],v,seen)
fails=collections.Counter(); ex={}; cnt=[0]
@seed(int(os.environ.get("VERIF_SEED","1")))
@settings(max_examples=int(os.environ.get("N","2000")), deadline=None, database=None, suppress_health_check=list(HealthCheck))
@given(graph)
def test2(g):
    cnt[0]+=1
    for kind in ("json","dict"):
        exc=build(g)
        r=TaskiqResult(is_err=True, return_value=None, execution_time=0.1, error=exc)
        l=TaskiqResult.model_validate_json(r.model_dump_json()) if kind=="json" else TaskiqResult.model_validate(r.model_dump())
        v=[]; check_json(exc,l.error,"root",v,frozenset())
        for x in v:
            k=(kind,x.split(" at ")[0][:60]); fails[k]+=1; ex.setdefault(k,(x,g))
test2(); print(cnt[0])
for k,c in fails.most_common(20): print(c,k); print("    ",ex[k][0]); print("    ",ex[k][1])

def safe(x):
    try: return str(x)
    except Exception:
        out=[]
        for a in x:
            try: out.append(str(a))
            except Exception: out.append('?')
        return ' '.join(out)
def check_pickle(orig, loaded, v):
    if not isinstance(loaded, BaseException): v.append("b not exc"); return
    cls=type(orig); args=orig.args
    def pk(a):
        try:
            b=pickle.loads(pickle.dumps(a)); return (b==a) is True
        except Exception: return False
    ok=resolvable(cls) and all(pk(a) for a in args)
    if ok:
        try: ok = cls(*args).args==args
        except Exception: ok=False
    if ok:
        if type(loaded) is not cls: v.append(f"c class {type(loaded).__name__} != {cls.__name__}")
        elif loaded.args!=args: v.append(f"c args {loaded.args!r} != {args!r}")
    else:
        t=type(loaded)
        if not (t is cls or t.__name__==cls.__name__ or t in cls.__mro__ or cls.__name__ in safe(loaded.args)):
            v.append(f"d standin {t.__module__}.{t.__name__} for {cls.__name__}")
fails.clear(); ex.clear(); cnt[0]=0
@seed(int(os.environ.get("VERIF_SEED","1")))
@settings(max_examples=int(os.environ.get("N","2000")), deadline=None, database=None, suppress_health_check=list(HealthCheck))
@given(graph)
def test3(g):
    cnt[0]+=1
    exc=build(g)
    r=TaskiqResult(is_err=True, return_value=None, execution_time=0.1, error=exc)
    l=pickle.loads(pickle.dumps(r))
    v=[]; check_pickle(build(g), l.error, v)
    for x in v:
        k=x[:60]; fails[k]+=1; ex.setdefault(k,(x,g))
test3(); print("pickle", cnt[0])
for k,c in fails.most_common(20): print(c,k); print("    ",ex[k][0]); print("    ",ex[k][1][:1])
