"""C12 prototype: generated dependency DAGs with four teardown styles; oracle a-d."""
import asyncio, sys, os, logging, collections, contextlib
sys.path.insert(0, os.path.dirname(os.path.abspath(__file__)))
from taskiq import InMemoryBroker, TaskiqDepends
from taskiq.kicker import AsyncKicker
from taskiq.receiver import Receiver
from taskiq.abc.broker import AckableMessage
from taskiq.acks import AcknowledgeType
from hypothesis import given, settings, strategies as st, seed, HealthCheck
logging.disable(logging.CRITICAL)
STYLES=["plain","gen","agen","cm","acm"]
def source(nodes, task_deps, outcome):
    L=["import asyncio, contextlib","from taskiq import TaskiqDepends"]
    for i,nd in enumerate(nodes):
        params=", ".join(f"d{j}=TaskiqDepends(n{j}, use_cache={uc})" for j,uc in nd["deps"])
        st_=nd["style"]; fail=nd["fail"]; swallow=nd["swallow"]
        body_open=f"    LOG(('open',{i}))\n" + (f"    raise RuntimeError('dep{i} failed')\n" if fail=="before" else "")
        if st_=="plain":
            L.append(f"def n{i}({params}):\n{body_open}    return {i}")
            continue
        deco={"gen":"","agen":"","cm":"@contextlib.contextmanager\n","acm":"@contextlib.asynccontextmanager\n"}[st_]
        isasync = st_ in ("agen","acm")
        L.append(f"{deco}{'async ' if isasync else ''}def n{i}({params}):\n{body_open}    try:\n        yield {i}\n    except BaseException as e:\n        LOG(('saw',{i},type(e).__name__))\n" + ("        pass\n" if swallow else "        raise\n") + f"    finally:\n        LOG(('close',{i}))")
    params=", ".join(f"d{j}=TaskiqDepends(n{j}, use_cache={uc})" for j,uc in task_deps)
    L.append(f"async def task({params}):\n    LOG(('enter',))\n    try:\n        await asyncio.sleep({outcome['dur']})\n" + ("        raise ValueError('boom')\n" if outcome["kind"]=="raise" else "        return 1\n") + "    finally:\n        LOG(('exit',))")
    return "\n\n".join(L)
node=lambda i: st.fixed_dictionaries(dict(style=st.sampled_from(STYLES), fail=st.sampled_from([None,None,None,None,"before"]), swallow=st.booleans(),
        deps=st.lists(st.tuples(st.integers(0,max(i-1,0)), st.booleans()), max_size=2 if i>0 else 0, unique_by=lambda x:x[0])))
graph=st.integers(1,5).flatmap(lambda n: st.tuples(st.tuples(*[node(i) for i in range(n)]),
        st.lists(st.tuples(st.integers(0,n-1), st.booleans()), min_size=1, max_size=3, unique_by=lambda x:x[0]),
        st.fixed_dictionaries(dict(kind=st.sampled_from(["ret","raise","timeout"]), dur=st.sampled_from([0,0.01]))),
        st.booleans(), st.sampled_from(list(AcknowledgeType))))
fails=collections.Counter(); ex={}; cnt=[0]; cls=collections.Counter()
async def run(nodes,tdeps,outcome,propagate,ackt):
    log=[]
    ns={"LOG":log.append,"__name__":__name__}
    exec(source(nodes,tdeps,outcome),ns)
    b=InMemoryBroker()
    class RB(type(b.result_backend)):
        async def set_result(self,tid,res): log.append(("save",res.is_err,type(res.error).__name__)); await super().set_result(tid,res)
    b.result_backend=RB()
    t=b.register_task(ns["task"],task_name="t")
    r=Receiver(b,max_async_tasks=5,run_startup=False,propagate_exceptions=propagate,ack_type=ackt)
    labels={"timeout":0.005} if outcome["kind"]=="timeout" else {}
    m=b.formatter.dumps(AsyncKicker("t",b,labels).with_task_id("x")._prepare_message()).message
    await r.callback(AckableMessage(data=m,ack=lambda: log.append(("ack",))))
    return log
@seed(int(os.environ.get("VERIF_SEED","1")))
@settings(max_examples=int(os.environ.get("N","1500")), deadline=None, database=None, suppress_health_check=list(HealthCheck))
@given(graph)
def test(g):
    nodes,tdeps,outcome,propagate,ackt=g
    if outcome["kind"]=="timeout": outcome=dict(outcome,dur=0.05)
    cnt[0]+=1
    log=asyncio.run(run(nodes,tdeps,outcome,propagate,ackt))
    v=[]
    opens=[e for e in log if e[0]=="open"]; closes=[e for e in log if e[0]=="close"]
    yielding=lambda i: nodes[i]["style"]!="plain" and nodes[i]["fail"]!="before"
    # instance-level pairing: sequence of open/close events of yielding nodes
    seq=[(e[0],e[1]) for e in log if e[0] in("open","close") and yielding(e[1])]
    stack=[]; order_ok=True; bal=collections.Counter()
    for k,i in seq:
        if k=="open": stack.append(i); bal[i]+=1
        else:
            bal[i]-=1
            if stack and stack[-1]==i: stack.pop()
            else:
                order_ok=False
                if i in stack: stack.remove(i)
    if any(c!=0 for c in bal.values()): v.append("a open/close unbalanced")
    if not order_ok: v.append("b not reverse order")
    pos={k:[n for n,e in enumerate(log) if e[0]==k] for k in ("save","ack","exit","close","enter")}
    if pos["close"]:
        if pos["save"] and max(pos["close"])>min(pos["save"]): v.append("c close after save")
        if ackt!=AcknowledgeType.WHEN_RECEIVED and pos["ack"] and max(pos["close"])>min(pos["ack"]): v.append("c close after ack")
        if pos["exit"] and min(pos["close"])<max(pos["exit"]): v.append("c close before exit")
    entered=bool(pos["enter"])
    failed_dep=not entered
    exc_expected = propagate and (failed_dep or outcome["kind"] in ("raise","timeout"))
    saw=[e for e in log if e[0]=="saw"]
    if exc_expected:
        n_yield_open=sum(1 for k,i in seq if k=="open")
        if len(saw)!=n_yield_open: v.append(f"d saw {len(saw)} of {n_yield_open}")
    elif saw: v.append("d saw exception without propagation/err")
    if len(pos["save"])!=1: v.append("save count")
    if len(pos["ack"])!=1: v.append("ack count")
    uncached_nested = any((not uc) and any(nodes[k]["style"]!="plain" for k in desc(nodes,j)) for lst in [tdeps]+[n["deps"] for n in nodes] for j,uc in lst)
    cls["uncached_nested"]+=uncached_nested; cls["failed_dep"]+=failed_dep; cls["multi_yield"]+= (sum(1 for k,i in seq if k=="open")>=2)
    for x in v:
        k=(x[:30], "uncached_nested" if uncached_nested else "cached-only"); fails[k]+=1; ex.setdefault(k,(g,log))
def desc(nodes,j):
    out=set(); st_=[j]
    while st_:
        x=st_.pop()
        for k,_ in nodes[x]["deps"]:
            if k not in out: out.add(k); st_.append(k)
    return out
test(); print(cnt[0], cls)
for k,c in fails.most_common(): print(c,k); print("   ",ex[k])
