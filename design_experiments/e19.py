import sys, os, pickle, json, math, threading, datetime, decimal, asyncio, collections, time
sys.path.insert(0, __import__("os").path.dirname(__import__("os").path.abspath(__file__)))
import excat
from taskiq.result import TaskiqResult
from taskiq.exceptions import TaskiqResultTimeoutError, NoResultError, SecurityError, SendTaskError
from hypothesis import given, settings, strategies as st, seed, HealthCheck
CLASSES = dict(ValueError=ValueError, KeyError=KeyError, OSError=OSError, FileNotFoundError=FileNotFoundError, StopIteration=StopIteration,
  SystemExit=SystemExit, KeyboardInterrupt=KeyboardInterrupt, GeneratorExit=GeneratorExit, Cancelled=asyncio.CancelledError, TimeoutError=TimeoutError,
  ModErr=excat.ModErr, ModBase=excat.ModBase, Inner=excat.Outer.Inner, TwoArgs=excat.TwoArgs, KwOnly=excat.KwOnly, NoArgsKept=excat.NoArgsKept,
  WithState=excat.WithState, DerivedKeyErr=excat.DerivedKeyErr, Loc=excat.make_local(), LocB=excat.make_local_base(), Dyn=excat.Dyn, DynHidden=excat.DynHidden,
  BadReprExc=excat.BadReprExc, TqTimeout=TaskiqResultTimeoutError, NoResult=NoResultError, Security=SecurityError, SendTask=SendTaskError, UnicodeDecodeError=UnicodeDecodeError, ExceptionGroup=ExceptionGroup)
jsonv = st.recursive(st.one_of(st.none(), st.booleans(), st.integers(-2**70,2**70), st.floats(allow_nan=False, allow_infinity=False), st.text(max_size=5)),
    lambda c: st.one_of(st.lists(c,max_size=3), st.dictionaries(st.text(max_size=3), c, max_size=3)), max_leaves=6)
SPECIAL = dict(bytes=lambda: b"\xff\x00", set=lambda: {1,2}, complex=lambda: 1+2j, dt=lambda: datetime.datetime(2020,1,1), dec=lambda: decimal.Decimal("1.5"),
  lam=lambda: (lambda: 1), lock=lambda: threading.Lock(), gen=lambda: (i for i in range(2)), badrepr=lambda: excat.BadRepr(), nan=lambda: float("nan"), inf=lambda: float("inf"),
  tup=lambda: (1,(2,3)), intkey=lambda: {1:2}, obj=lambda: object(), exc=lambda: ValueError("inner"), cls=lambda: int)
arg = st.one_of(jsonv.map(lambda v: ("json", v)), st.sampled_from(sorted(SPECIAL)).map(lambda k: ("special", k)))
node = st.fixed_dictionaries(dict(cls=st.sampled_from(sorted(CLASSES)), args=st.lists(arg, max_size=3), cause=st.one_of(st.none(), st.integers(0,5)), ctx=st.one_of(st.none(), st.integers(0,5)), suppress=st.booleans()))
graph = st.lists(node, min_size=1, max_size=6)
def build(g):
    objs=[]
    for nd in g:
        cls=CLASSES[nd["cls"]]; args=[a[1] if a[0]=="json" else SPECIAL[a[1]]() for a in nd["args"]]
        try:
            if cls is excat.KwOnly: e=cls(code=args[0] if args else None)
            elif cls is TaskiqResultTimeoutError: e=cls(timeout=1.0)
            elif cls is SecurityError: e=cls(description="d")
            elif cls is UnicodeDecodeError: e=cls("utf-8", b"\xff", 0, 1, "bad")
            elif cls is ExceptionGroup: e=cls("g",[ValueError(1)])
            else: e=cls(*args)
        except Exception:
            e=ValueError("ctor failed")
        objs.append(e)
    for i,nd in enumerate(g):
        if nd["cause"] is not None and nd["cause"]<len(objs): objs[i].__cause__=objs[nd["cause"]]
        if nd["ctx"] is not None and nd["ctx"]<len(objs): objs[i].__context__=objs[nd["ctx"]]
        objs[i].__suppress_context__=nd["suppress"]
    return objs[0]
fails=collections.Counter(); cnt=[0]
@seed(int(os.environ.get("VERIF_SEED","1")))
@settings(max_examples=int(os.environ.get("N","3000")), deadline=None, database=None, suppress_health_check=list(HealthCheck))
@given(graph)
def test(g):
    cnt[0]+=1
    for kind in ("json","dict","pickle"):
        exc=build(g)
        r = TaskiqResult(is_err=True, return_value=None, execution_time=0.1, error=exc)
        try:
            if kind=="json": l=TaskiqResult.model_validate_json(r.model_dump_json())
            elif kind=="dict": l=TaskiqResult.model_validate(r.model_dump())
            else: l=pickle.loads(pickle.dumps(r))
            assert isinstance(l.error, BaseException), type(l.error)
        except BaseException as ex:
            key=(kind, type(ex).__name__, str(ex)[:90])
            fails[key]+=1
            if fails[key]==1: print("FAIL", key, g)
t=time.time(); test(); print(cnt[0], time.time()-t)
for k,v in fails.most_common(): print(v,k)
