import sys; sys.path.insert(0, __import__("os").path.dirname(__import__("os").path.abspath(__file__)))
from e11 import *
class FP3(FP):
    def start(self):
        super().start()
        if self.pid in self.w.die_on_start:
            self.state="zombie"; self.w.trace.append(("die_on_start", self.slot, self.pid))
def run3(workers, max_fails, history, die_on_start):
    w = World(history); w.die_on_start=set(die_on_start)
    def P(target=None, kwargs=None, name=None, daemon=None):
        p = FP3(w, name); w.procs.append(p); return p
    sig = types.SimpleNamespace(SIGINT=2, SIGTERM=15, SIGHUP=1, signal=lambda s,h: w.handlers.__setitem__(s,h))
    pm.signal = sig; pm.Process = P; pm.sleep = w.sleep; pm.Queue = FQ; pm.Event = FE
    pm.os = types.SimpleNamespace(kill=w.kill)
    pm.current_process = lambda: types.SimpleNamespace(name="MainProcess")
    args = WorkerArgs(broker="x:y", modules=[], workers=workers, max_fails=max_fails)
    m = pm.ProcessManager(args, worker_function=lambda args: None)
    try: ret = m.start()
    except Stop: ret = "running"
    except Exception as e: ret = f"EXC {type(e).__name__}"
    return ret, w.trace
# worker 0 (pid 100) crashes during startup; Ctrl-C in first tick
print(run3(2, -1, [{"sig":[2]}], {100}))
