"""C17/C18 prototype: reference model + invariants vs ProcessManager on enumerated histories."""
import sys, os, itertools, time, types, logging, collections
sys.path.insert(0, os.path.dirname(os.path.abspath(__file__)))
import taskiq.cli.worker.process_manager as pm
from taskiq.cli.worker.args import WorkerArgs
logging.disable(logging.CRITICAL)
class Stop(BaseException): pass
class FQ:
    def __init__(self,*a): self.q=[]
    def put(self,x): self.q.append(x)
    def get(self): return self.q.pop(0)
    def empty(self): return not self.q
class FE:
    def wait(self,t): return False
class World:
    def __init__(self, history, startup_deaths):
        self.h=list(history); self.tick=0; self.procs=[]; self.trace=[]; self.handlers={}; self.pid=100
        self.startup_deaths=set(startup_deaths); self.nstart=0
    def sleep(self,s):
        if self.tick>=len(self.h): raise Stop()
        ev=self.h[self.tick]; self.tick+=1; self.trace.append(("tick",self.tick))
        for i in ev[0]:
            for p in self.procs:
                if p.slot==i and p.state=="alive": p.state="zombie"; self.trace.append(("die",i,p.pid))
        for s in ev[1]:
            if s=="fc": pm.schedule_workers_reload(self.queue)
            else: self.handlers[s](s,None)
    def kill(self,pid,sig):
        p=next((p for p in self.procs if p.pid==pid),None)
        self.trace.append(("kill",pid,sig,p.state if p else None))
        if p is None or p.state=="reaped": raise ProcessLookupError(pid)
class FP:
    def __init__(s,w,name): s.w=w; s.name=name; s.slot=int(name.split("-")[1]); s.pid=None; s.state="new"
    def start(s):
        s.pid=s.w.pid; s.w.pid+=1; s.state="alive"; s.w.trace.append(("start",s.slot,s.pid))
        k=s.w.nstart; s.w.nstart+=1
        if k in s.w.startup_deaths: s.state="zombie"; s.w.trace.append(("die",s.slot,s.pid))
    def is_alive(s):
        if s.state=="zombie": s.state="reaped"
        return s.state=="alive"
    def terminate(s):
        s.w.trace.append(("terminate",s.slot,s.pid))
        if s.state=="alive": s.state="zombie"
    def join(s):
        s.w.trace.append(("join",s.slot,s.pid,s.state))
        if s.state=="zombie": s.state="reaped"
def run(W, mf, history, startup_deaths=()):
    w=World(history,startup_deaths)
    pm.signal=types.SimpleNamespace(SIGINT=2,SIGTERM=15,SIGHUP=1,signal=lambda s,h: w.handlers.__setitem__(s,h))
    pm.Process=lambda target=None,kwargs=None,name=None,daemon=None: (w.procs.append(FP(w,name)) or w.procs[-1])
    pm.sleep=w.sleep; pm.Queue=FQ; pm.Event=FE; pm.os=types.SimpleNamespace(kill=w.kill)
    pm.current_process=lambda: types.SimpleNamespace(name="MainProcess")
    m=pm.ProcessManager(WorkerArgs(broker="x:y",modules=[],workers=W,max_fails=mf), worker_function=lambda args: None)
    w.queue=m.action_queue
    try: ret=m.start()
    except Stop: ret="running"
    except Exception as e: ret=f"EXC {type(e).__name__}"
    return ret,w.trace,len(m.workers)
# ---- reference model (from the statement) ----
def model(W, mf, history, startup_deaths=()):
    alive=[True]*W; nstart=0; sd=set(startup_deaths)
    for i in range(W):
        if nstart in sd: alive[i]=False
        nstart+=1
    pending=[]; fails=0
    # deaths at startup are discovered by the end-of-tick scan like any other
    for t,ev in enumerate(history):
        for i in ev[0]: alive[i]=False
        for s in ev[1]: pending.append("RA" if s in (1,"fc") else "SD")
        restarted=set(); q=pending; pending=[]
        while q:
            a=q.pop(0)
            if a=="RA": q.extend(("R",i,True) for i in range(W))
            elif a=="SD": return None,t+1
            else:
                _,i,free=a
                if not free and mf>=1:
                    fails+=1
                    if fails>=mf: return -1,t+1
                if i in restarted: continue
                alive[i] = nstart not in sd; nstart+=1; restarted.add(i)
        for i in range(W):
            if not alive[i]: pending.append(("R",i,False))
    return "running",len(history)
def invariants(W, ret, trace, nworkers):
    v=[]
    cur={}; alive={}
    shutdown_kills=[]
    for e in trace:
        if e[0]=="start":
            s=e[1]
            if s in cur and alive.get(cur[s]) not in ("joined",): v.append(f"C17.a start slot {s} while old {cur[s]} state {alive.get(cur[s])}")
            cur[s]=e[2]; alive[e[2]]="alive"
        elif e[0]=="die": alive[e[2]]="dead"
        elif e[0]=="terminate": alive[e[2]]="terminated" if alive[e[2]]!="joined" else "joined"
        elif e[0]=="join":
            if alive[e[2]]=="alive": v.append("C17.b join on live process")
            alive[e[2]]="joined"
        elif e[0]=="kill": shutdown_kills.append(e)
    if nworkers!=W: v.append("C17.b slots changed")
    if ret is None:
        pids=[e[1] for e in shutdown_kills]
        if len(set(pids))!=len(pids): v.append("C18.c double kill")
        for e in shutdown_kills:
            if e[1] not in cur.values(): v.append("C18.c foreign pid")
            if e[3]=="reaped": v.append("C18.c kill reaped")
        live=[p for p in cur.values() if alive[p]=="alive"]
        for p in live:
            if p not in pids: v.append("C18.c live worker not signalled")
    elif shutdown_kills: v.append("kill without shutdown")
    return v
if __name__=="__main__":
    t=time.time(); n=0; bad=collections.Counter(); ex={}
    for W in (1,2):
        subsets=[c for r in range(W+1) for c in itertools.combinations(range(W),r)]
        alpha=[(d,s) for d in subsets for s in ((),(1,),("fc",),(15,),(2,),(1,15),(15,1),(1,1))]
        for mf in (-1,0,1,2,3):
            for depth in (1,2,3):
                for h in itertools.product(alpha,repeat=depth):
                    for sd in ((),(0,),(W,)):
                        n+=1
                        ret,tr,nw=run(W,mf,h,sd)
                        mret,mt=model(W,mf,h,sd)
                        v=invariants(W,ret,tr,nw)
                        if ret!=mret: v.append(f"C18.a ret {ret} model {mret}")
                        for x in v:
                            k=x.split(" slot")[0][:40]; bad[k]+=1; ex.setdefault(k,(W,mf,h,sd,ret,mret))
    print(n, time.time()-t); print(bad)
    for k,e in ex.items(): print(k, e)
