"""C10 prototype: middleware hook order, send side + worker side."""
import asyncio, sys, os, logging, collections
from taskiq import AsyncBroker, TaskiqMiddleware
from taskiq.kicker import AsyncKicker
from taskiq.receiver import Receiver
from taskiq.exceptions import NoResultError, SendTaskError
from taskiq.brokers.inmemory_broker import InmemoryResultBackend
from taskiq.compat import model_copy
from hypothesis import given, settings, strategies as st, seed, HealthCheck
logging.disable(logging.CRITICAL)
HOOKS=["pre_send","post_send","pre_execute","on_error","post_execute","post_save"]
mw=st.fixed_dictionaries(dict(hooks=st.dictionaries(st.sampled_from(HOOKS), st.booleans(), max_size=6), replace=st.booleans()))
case=st.fixed_dictionaries(dict(mws=st.lists(mw,max_size=3), out=st.sampled_from(["ret","raise","nores"]), save_fail=st.booleans(), kick_fail=st.booleans(), sync_task=st.booleans()))
fails=collections.Counter(); ex={}; cnt=[0]
@seed(int(os.environ.get("VERIF_SEED","1")))
@settings(max_examples=int(os.environ.get("N","2000")), deadline=None, database=None, suppress_health_check=list(HealthCheck))
@given(case)
def test(c):
    cnt[0]+=1
    log=[]
    async def go():
        class QB(AsyncBroker):
            def __init__(s): super().__init__(); s.q=[]
            async def kick(s,m):
                log.append(("kick",))
                if c["kick_fail"]: raise RuntimeError("down")
                s.q.append(m)
            async def listen(s): yield b""
        b=QB()
        class RB(InmemoryResultBackend):
            async def set_result(self,tid,res):
                log.append(("save",))
                if c["save_fail"]: raise RuntimeError("backend")
                await super().set_result(tid,res)
        b.result_backend=RB()
        for i,m in enumerate(c["mws"]):
            ns={}
            for h,is_async in m["hooks"].items():
                def mk(h=h,i=i,rep=m["replace"]):
                    if h in ("pre_send","pre_execute"):
                        def f(self,message):
                            log.append((h,i,tuple(message.labels.get("stamps_"+h,"").split(",")) ))
                            if rep:
                                message=model_copy(message,deep=True)
                            message.labels["stamps_"+h]=(message.labels.get("stamps_"+h,"")+f",{i}").lstrip(",")
                            return message
                    elif h=="on_error":
                        def f(self,message,result,exception): log.append((h,i))
                    elif h=="post_send":
                        def f(self,message): log.append((h,i))
                    else:
                        def f(self,message,result): log.append((h,i))
                    return f
                f=mk()
                if is_async:
                    def wrap(f=f):
                        async def g(self,*a): return f(self,*a)
                        return g
                    f=wrap()
                ns[h]=f
            b.add_middlewares(type(f"MW{i}",(TaskiqMiddleware,),ns)())
        def body():
            log.append(("enter",))
            try:
                if c["out"]=="raise": raise ValueError("x")
                if c["out"]=="nores": raise NoResultError()
                return 1
            finally: log.append(("exit",))
        if c["sync_task"]:
            def t(): return body()
        else:
            async def t(): return body()
        b.register_task(t,task_name="t")
        r=Receiver(b,max_async_tasks=5,run_startup=False)
        try:
            await AsyncKicker("t",b,{}).with_task_id("T").kiq(); log.append(("kiq_ok",))
        except SendTaskError: log.append(("SendTaskError",))
        except BaseException as e: log.append(("other_exc",type(e).__name__))
        log.append(("---",))
        while b.q: await r.callback(b.q.pop(0).message)
        if c["sync_task"]: pass
    asyncio.run(go())
    # expected
    idx=lambda h:[i for i,m in enumerate(c["mws"]) if h in m["hooks"]]
    exp=[]
    prev=()
    for i in idx("pre_send"):
        exp.append(("pre_send",i,prev if prev else ("",))); prev=prev+(str(i),)
    exp.append(("kick",))
    if c["kick_fail"]: exp+= [("SendTaskError",),("---",)]
    else:
        exp+=[("post_send",i) for i in idx("post_send")]+[("kiq_ok",),("---",)]
        prev=()
        for i in idx("pre_execute"):
            exp.append(("pre_execute",i,prev if prev else ("",))); prev=prev+(str(i),)
        exp+=[("enter",),("exit",)]
        if c["out"]!="ret": exp+=[("on_error",i) for i in idx("on_error")]
        exp+=[("post_execute",i) for i in idx("post_execute")]
        if c["out"]!="nores":
            exp.append(("save",))
            if not c["save_fail"]: exp+=[("post_save",i) for i in idx("post_save")]
    if log!=exp:
        k="mismatch"; fails[k]+=1; ex.setdefault(k,(c,log,exp))
test(); print(cnt[0]); 
for k,cn in fails.items(): print(cn,k); print(ex[k][0]); print(ex[k][1]); print(ex[k][2])
