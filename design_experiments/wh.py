"""scratch worker harness prototype"""
import asyncio, sys, logging, concurrent.futures as cf
sys.path.insert(0, __import__("os").path.dirname(__import__("os").path.abspath(__file__)))
from vloop import VirtualTimeLoop
from taskiq import AsyncBroker, AckableMessage, TaskiqMiddleware
from taskiq.abc.result_backend import AsyncResultBackend
from taskiq.acks import AcknowledgeType
from taskiq.exceptions import NoResultError
from taskiq.receiver import Receiver
logging.disable(logging.CRITICAL)

class Inline(cf.Executor):
    def submit(self, fn, *a, **k):
        f = cf.Future()
        try: f.set_result(fn(*a, **k))
        except BaseException as e: f.set_exception(e)
        return f

class MyBase(BaseException): pass
EXC = {"ValueError": ValueError, "KeyboardInterrupt": KeyboardInterrupt, "SystemExit": SystemExit,
       "Cancelled": asyncio.CancelledError, "MyBase": MyBase, "NoResult": NoResultError}

class Trace:
    def __init__(self, loop): self.loop=loop; self.ev=[]
    def add(self, kind, msg=None, **kw): self.ev.append((round(self.loop.time(),9), kind, msg, kw))

class SB(AsyncBroker):
    def __init__(self, tr): super().__init__(); self.tr=tr; self.script=[]; self.ends=False
    async def kick(self, m): self.tr.add("kick", m.task_id)
    async def listen(self):
        loop = asyncio.get_running_loop()
        for i,(at,data,ackkind) in enumerate(self.script):
            d = at - loop.time()
            if d > 0: await asyncio.sleep(d)
            if ackkind is None: item = data
            elif ackkind == "sync":
                item = AckableMessage(data=data, ack=(lambda i=i: self.tr.add("ack", i)))
            else:
                async def ack(i=i):
                    self.tr.add("ack", i)
                item = AckableMessage(data=data, ack=ack)
            self.tr.add("take", i); yield item
        if not self.ends: await asyncio.Event().wait()

class RB(AsyncResultBackend):
    def __init__(self, tr, fail_calls=(), latency=0.0): self.tr=tr; self.n=0; self.fail=set(fail_calls); self.lat=latency; self.store={}
    async def set_result(self, task_id, result):
        k=self.n; self.n+=1
        self.tr.add("save_start", task_id, is_err=result.is_err, rv=result.return_value, err=type(result.error).__name__ if result.error else None, labels=dict(result.labels))
        if self.lat: await asyncio.sleep(self.lat)
        if k in self.fail:
            self.tr.add("save_failed", task_id); raise RuntimeError("backend down")
        self.store[task_id]=result; self.tr.add("save_end", task_id)
    async def is_result_ready(self, task_id): return task_id in self.store
    async def get_result(self, task_id, with_logs=False): return self.store[task_id]

def run_scenario(sc):
    loop = VirtualTimeLoop(); asyncio.set_event_loop(loop)
    tr = Trace(loop)
    b = SB(tr); b.ends = sc.get("ends", False)
    b.result_backend = RB(tr, sc.get("fail_saves", ()), sc.get("save_latency", 0.0))
    specs = sc["msgs"]
    bar = {"n": 0, "ev": asyncio.Event(), "need": sc["A"]}
    async def atask(i):
        sp = specs[i]; tr.add("enter", i)
        try:
            if sp.get("barrier"):
                bar["n"] += 1
                if bar["n"] >= bar["need"]: bar["ev"].set()
                try: await asyncio.wait_for(bar["ev"].wait(), 50.0); tr.add("barrier_ok", i)
                except asyncio.TimeoutError: tr.add("barrier_timeout", i)
                return ("rv", i)
            if sp["dur"]: await asyncio.sleep(sp["dur"])
            if sp["out"] != "ret": raise EXC[sp["out"]]()
            return ("rv", i)
        finally: tr.add("exit", i)
    def stask(i):
        sp = specs[i]; tr.add("enter", i)
        try:
            if sp["out"] != "ret": raise EXC[sp["out"]]()
            return ("rv", i)
        finally: tr.add("exit", i)
    ta = b.register_task(atask, task_name="atask"); ts = b.register_task(stask, task_name="stask")
    for mi, hooks in enumerate(sc.get("mws", [])):
        ns = {}
        def mk(hook, mi=mi, is_async=False, fail=False):
            if hook in ("pre_send","pre_execute"):
                def f(self, message): tr.add(hook, int(message.args[0]), mw=mi); 
                if fail: 
                    def f(self, message): tr.add(hook, int(message.args[0]), mw=mi); raise RuntimeError("hook")
                else:
                    def f(self, message): tr.add(hook, int(message.args[0]), mw=mi); return message
            elif hook == "on_error":
                def f(self, message, result, exception):
                    tr.add(hook, int(message.args[0]), mw=mi)
                    if fail: raise RuntimeError("hook")
            else:
                def f(self, message, result=None):
                    tr.add(hook, int(message.args[0]), mw=mi)
                    if fail: raise RuntimeError("hook")
            if is_async:
                g = f
                async def f2(self, *a, **k): return g(self, *a, **k)
                return f2
            return f
        for h, (is_async, fail) in hooks.items(): ns[h] = mk(h, is_async=is_async, fail=fail)
        b.add_middlewares(type(f"MW{mi}", (TaskiqMiddleware,), ns)())
    script=[]
    for i, sp in enumerate(specs):
        if sp["kind"] == "bad": data = sp.get("data", b"\x00garbage")
        else:
            t = ta if sp["kind"] in ("async","unknown") else ts
            from taskiq.kicker import AsyncKicker
            k = AsyncKicker(t.task_name, b, {}).with_task_id(f"id{i}")
            if sp.get("timeout") is not None: k = k.with_labels(timeout=sp["timeout"])
            m = k._prepare_message(i)
            if sp["kind"] == "unknown": m.task_name = "nope"
            data = b.formatter.dumps(m).message
        script.append((sp["at"], data, sp.get("ack")))
    b.script = script
    r = Receiver(b, executor=Inline(), max_async_tasks=sc["A"], max_prefetch=sc["P"], max_tasks_to_execute=sc.get("N"),
                 wait_tasks_timeout=sc.get("W"), ack_type=AcknowledgeType(sc.get("ack_type","when_saved")), run_startup=False)
    res = {}
    async def main():
        ev = asyncio.Event()
        if sc.get("stop") is not None: loop.call_at(sc["stop"], lambda: (tr.add("stop"), ev.set()))
        lt = asyncio.ensure_future(r.listen(ev))
        done, _ = await asyncio.wait({lt}, timeout=sc.get("horizon", 10_000.0))
        if lt in done:
            tr.add("return"); res["returned"]=True
            if lt.exception(): res["listen_exc"]=repr(lt.exception())
        else:
            res["returned"]=False; lt.cancel()
        await asyncio.sleep(sc.get("drain", 5_000.0))
    try:
        loop.run_until_complete(main())
    finally:
        for t in asyncio.all_tasks(loop): t.cancel()
        loop.run_until_complete(asyncio.sleep(0))
        loop.close(); asyncio.set_event_loop(None)
    res["trace"]=tr.ev
    return res
