import sys; sys.path.insert(0, __import__("os").path.dirname(__import__("os").path.abspath(__file__)))
import e11
from e11 import *
# extend: signal delivered during is_alive of slot i in scan of tick k
class FP2(FP):
    def is_alive(self):
        w=self.w
        hook = w.midscan.get((w.tick, self.slot))
        if hook and not getattr(self,'_fired',False) and self is w.cur(self.slot):
            self._fired=True
            for s in hook: w.handlers[s](s,None)
        return super().is_alive()
def run2(workers, max_fails, history, midscan):
    w = World(history); w.midscan = midscan
    w.cur = lambda slot: [p for p in w.procs if p.slot==slot][-1]
    def P(target=None, kwargs=None, name=None, daemon=None):
        p = FP2(w, name); w.procs.append(p); return p
    sig = types.SimpleNamespace(SIGINT=2, SIGTERM=15, SIGHUP=1, signal=lambda s,h: w.handlers.__setitem__(s,h))
    pm.signal = sig; pm.Process = P; pm.sleep = w.sleep; pm.Queue = FQ; pm.Event = FE
    pm.os = types.SimpleNamespace(kill=w.kill)
    pm.current_process = lambda: types.SimpleNamespace(name="MainProcess")
    args = WorkerArgs(broker="x:y", modules=[], workers=workers, max_fails=max_fails)
    m = pm.ProcessManager(args, worker_function=lambda args: None)
    try: ret = m.start()
    except Stop: ret = "running"
    except Exception as e: ret = f"EXC {type(e).__name__}"
    return ret, w.trace
# worker 0 dies in tick 1's sleep; SIGTERM arrives during the scan of tick 1 before slot 0 is polled
print(run2(2, -1, [{"die":[0]}, {}, {}], {(1,0):[15]}))
