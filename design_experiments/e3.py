import asyncio, sys, logging
sys.path.insert(0, __import__("os").path.dirname(__import__("os").path.abspath(__file__)))
from vloop import run
from e2 import main
logging.disable(logging.CRITICAL)
for A,P,n in [(1,0,1),(1,1,1),(2,0,1),(2,0,2),(2,1,2),(2,1,3)]:
    try:
        print(A,P,n, run(asyncio.wait_for(main(A,P,[0.0]*n,[1000.0]*n,1.0,wtt=2.0), 5000)))
    except Exception as e:
        print(A,P,n,"EXC",type(e).__name__, e)
