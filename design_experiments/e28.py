"""C06 prototype: concurrent executions with generated dependency graphs echoing Context."""
import asyncio, sys, os, logging, collections
sys.path.insert(0, os.path.dirname(os.path.abspath(__file__)))
from vloop import VirtualTimeLoop
from taskiq import InMemoryBroker, TaskiqDepends, Context
from taskiq.kicker import AsyncKicker
from taskiq.receiver import Receiver
from hypothesis import given, settings, strategies as st, seed, HealthCheck
logging.disable(logging.CRITICAL)
def source(nodes, task_deps):
    L=["import asyncio","from taskiq import TaskiqDepends, Context"]
    for i,nd in enumerate(nodes):
        params=", ".join([f"d{j}=TaskiqDepends(n{j}, use_cache={uc})" for j,uc in nd["deps"]]+(["ctx: Context = TaskiqDepends()"] if nd["ctx"] else []))
        echo=f"    if {nd['ctx']}: ECHO({i}, ctx.message.task_id, ctx.message.args[0], ctx.message.labels.get('who'))\n"
        sl="ctx.message.args[1]" if nd["ctx"] else str(nd["sleep"])
        if nd["style"]=="sync":
            L.append(f"def n{i}({params}):\n{echo}    return {i}")
        elif nd["style"]=="async":
            L.append(f"async def n{i}({params}):\n    await asyncio.sleep({sl} if {nd['sleeps']} else 0)\n{echo}    return {i}")
        else:
            L.append(f"async def n{i}({params}):\n    await asyncio.sleep({sl} if {nd['sleeps']} else 0)\n{echo}    yield {i}")
    params=", ".join([f"d{j}=TaskiqDepends(n{j}, use_cache={uc})" for j,uc in task_deps]+["ctx: Context = TaskiqDepends()"])
    L.append(f"async def task(me, slp, {params}):\n    ECHO('task', ctx.message.task_id, ctx.message.args[0], ctx.message.labels.get('who'))\n    await asyncio.sleep(slp)\n    return me")
    return "\n\n".join(L)
node=lambda i: st.fixed_dictionaries(dict(style=st.sampled_from(["sync","async","agen"]), ctx=st.booleans(), sleeps=st.booleans(), sleep=st.sampled_from([0,0.1,0.2]),
        deps=st.lists(st.tuples(st.integers(0,max(i-1,0)), st.booleans()), max_size=2 if i>0 else 0, unique_by=lambda x:x[0])))
case=st.integers(1,4).flatmap(lambda n: st.tuples(st.tuples(*[node(i) for i in range(n)]),
        st.lists(st.tuples(st.integers(0,n-1), st.booleans()), min_size=1, max_size=3, unique_by=lambda x:x[0]),
        st.lists(st.tuples(st.sampled_from([0,0.05,0.1,0.15,0.3]), st.sampled_from([0,0.05,0.1,0.2])), min_size=2, max_size=4)))
cnt=[0]; found=[]
def run(nodes,tdeps,msgs):
    loop=VirtualTimeLoop(); asyncio.set_event_loop(loop)
    echoes=collections.defaultdict(list); cur={}
    async def main():
        b=InMemoryBroker()
        def ECHO(node, tid, a0, who):
            t=asyncio.current_task(); echoes[cur[t]].append((node,tid,a0,who))
        ns={"ECHO":ECHO,"__name__":__name__}; exec(source(nodes,tdeps),ns)
        b.register_task(ns["task"],task_name="t")
        r=Receiver(b,max_async_tasks=10,run_startup=False)
        async def one(k,start,slp):
            await asyncio.sleep(start); cur[asyncio.current_task()]=k
            m=b.formatter.dumps(AsyncKicker("t",b,{"who":f"w{k}"}).with_task_id(f"id{k}")._prepare_message(k,slp)).message
            await r.callback(m)
        await asyncio.gather(*[one(k,s,sl) for k,(s,sl) in enumerate(msgs)])
        out={}
        for k in range(len(msgs)):
            res=await b.result_backend.get_result(f"id{k}"); out[k]=(res.is_err,res.return_value)
        return out
    try: out=loop.run_until_complete(main())
    finally: loop.close(); asyncio.set_event_loop(None)
    v=[]
    for k,ev in echoes.items():
        for (node,tid,a0,who) in ev:
            if (tid,a0,who)!=(f"id{k}",k,f"w{k}"): v.append(f"a exec {k} node {node} saw {tid}")
    for k,(err,rv) in out.items():
        if err or rv!=k: v.append(f"b result {k} -> {rv} err={err}")
    return v
@seed(int(os.environ.get("VERIF_SEED","1")))
@settings(max_examples=int(os.environ.get("N","1000")), deadline=None, database=None, suppress_health_check=list(HealthCheck))
@given(case)
def test(c):
    cnt[0]+=1
    v=run(*c)
    assert not v,(v[:3],c)
try: test(); print("no violation")
except AssertionError as e: print("FOUND after", cnt[0], "examples (incl. shrink):", str(e)[:900])
