import asyncio, logging, math
from taskiq import AsyncBroker, InMemoryBroker, TaskiqDepends, Context, SimpleRetryMiddleware
from taskiq.receiver import Receiver
logging.disable(logging.CRITICAL)

class QB(AsyncBroker):
    def __init__(self): super().__init__(); self.q=[]
    async def kick(self, m): self.q.append(m)
    async def listen(self): yield b""

async def main():
    b = QB()
    from taskiq.brokers.inmemory_broker import InmemoryResultBackend
    b.result_backend = InmemoryResultBackend()
    seen = []
    lab = dict(i=5, f=1.5, t=True, fl=False, s="x", by=b"\xff\x00", nan=float("nan"), big=10**30, e=b"", u="é\U0001f600")
    @b.task(task_name="t", **lab)
    async def t(n, ctx: Context = TaskiqDepends()):
        seen.append(dict(ctx.message.labels))
        if len(seen) < n: await ctx.requeue()
        return 1
    r = Receiver(b, max_async_tasks=10, run_startup=False)
    await t.kiq(3)
    while b.q:
        m = b.q.pop(0)
        await r.callback(m.message)
    for s in seen:
        print({k:(type(v).__name__, v) for k,v in s.items()})
    print("executions", len(seen))
asyncio.run(main())

async def retry(max_retries, fails, label_kind, default_label=False, default_count=3, no_result=True):
    b = QB()
    from taskiq.brokers.inmemory_broker import InmemoryResultBackend
    saves=[]
    class RB(InmemoryResultBackend):
        async def set_result(self, tid, res): saves.append((tid, res.is_err, res.return_value)); await super().set_result(tid,res)
    b.result_backend = RB()
    b.add_middlewares(SimpleRetryMiddleware(default_retry_count=default_count, default_retry_label=default_label, no_result_on_retry=no_result))
    runs=[]
    labels={}
    if label_kind=="bool": labels["retry_on_error"]=True
    elif label_kind=="str": labels["retry_on_error"]="True"
    if max_retries is not None: labels["max_retries"]=max_retries
    @b.task(task_name="t", **labels)
    async def t(x):
        runs.append(x)
        if len(runs) <= fails: raise ValueError("f")
        return len(runs)
    r = Receiver(b, max_async_tasks=10, run_startup=False)
    await t.kicker().with_task_id("T").kiq(1)
    ids=set()
    while b.q:
        m = b.q.pop(0); ids.add(m.task_id)
        await r.callback(m.message)
    return len(runs), saves, ids
for mr in (None,0,1,2,3):
    for kind in ("bool","str","none"):
        print("max_retries",mr,kind, asyncio.run(retry(mr, 99, kind)))
print(asyncio.run(retry(4, 2, "bool")))
print(asyncio.run(retry(4, 2, "bool", no_result=False)))
print(asyncio.run(retry(None, 99, "none", default_label=True, default_count=2)))
