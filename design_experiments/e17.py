import sys, os, time, collections
sys.path.insert(0, __import__("os").path.dirname(__import__("os").path.abspath(__file__)))
from wh import run_scenario
from hypothesis import given, settings, strategies as st, seed, HealthCheck
G=0.05
tm = st.integers(0,80).map(lambda k: round(k*G,9))
msg = st.fixed_dictionaries(dict(
    kind=st.sampled_from(["async","async","async","sync","bad","unknown"]),
    at=tm, dur=st.sampled_from([0.0,0.05,0.3,0.35,1.0,3.0]),
    out=st.sampled_from(["ret","ret","ValueError","KeyboardInterrupt","SystemExit","Cancelled","MyBase","NoResult"]),
    ack=st.sampled_from([None,"sync","async"]),
    timeout=st.sampled_from([None,None,0.3,1,"2.5"])))
hookspec = st.dictionaries(st.sampled_from(["pre_execute","post_execute","post_save","on_error"]), st.tuples(st.booleans(), st.just(False)), max_size=4)
scen = st.fixed_dictionaries(dict(A=st.integers(1,3), P=st.integers(0,3), N=st.none(), W=st.none(),
    ack_type=st.sampled_from(["when_received","when_executed","when_saved"]),
    msgs=st.lists(msg, min_size=1, max_size=8), stop=st.one_of(st.none(), tm), ends=st.just(True),
    fail_saves=st.sets(st.integers(0,6), max_size=3), save_latency=st.sampled_from([0.0,0.0,0.1]),
    mws=st.lists(hookspec, max_size=3)))
stats = collections.Counter()
def check(sc, res):
    v=[]
    tr = res["trace"]; msgs = sorted(sc["msgs"], key=lambda m: 0) ; specs=sc["msgs"]
    A,P = sc["A"], sc["P"]
    if not res["returned"]: v.append("noreturn")
    if res.get("listen_exc"): v.append("listen_exc "+res["listen_exc"])
    good = lambda i: specs[i]["kind"] in ("async","sync")
    idx = collections.defaultdict(list)
    for n,(t,kind,m,kw) in enumerate(tr):
        key = m if isinstance(m,int) else (int(m[2:]) if isinstance(m,str) and m.startswith("id") else None)
        if key is not None: idx[key].append((n,t,kind,kw))
    taken = [m for (t,k,m,kw) in tr if k=="take"]
    retn = next((n for n,e in enumerate(tr) if e[1]=="return"), None)
    for i in taken:
        evs = idx[i]; kinds=[e[2] for e in evs]
        if good(i):
            if kinds.count("enter")!=1: v.append(f"C01 enter count {kinds.count('enter')} msg {i}")
            if specs[i].get("ack"):
                if kinds.count("ack")!=1: v.append(f"C02 ack count {kinds.count('ack')} msg {i} {kinds}")
                else:
                    ka=kinds.index("ack"); at=sc["ack_type"]
                    if at=="when_received" and "enter" in kinds and ka>kinds.index("enter"): v.append("C02 recv late")
                    if at=="when_executed" and ka<kinds.index("exit"): v.append("C02 exec early")
                    if at=="when_saved":
                        if "exit" in kinds and ka<kinds.index("exit"): v.append("C02 saved early(exit)")
                        if "save_start" in kinds and not any(k in ("save_end","save_failed") and kinds.index(k)<ka for k in kinds): v.append("C02 saved early")
            sp=specs[i]
            nsave = kinds.count("save_start")
            timed_out = sp["kind"]=="async" and sp["timeout"] is not None and sp["dur"]>float(sp["timeout"])
            tie = sp["kind"]=="async" and sp["timeout"] is not None and sp["dur"]==float(sp["timeout"])
            exp_nores = sp["out"]=="NoResult" and not timed_out
            if tie: pass
            elif exp_nores:
                if nsave!=0: v.append("C07 saved noresult")
            else:
                if nsave!=1: v.append(f"C07 nsave {nsave} msg {i}")
                else:
                    kw=[e[3] for e in evs if e[2]=="save_start"][0]
                    if timed_out: exp=(True,"TimeoutError")
                    elif sp["out"]=="ret": exp=(False,None)
                    else:
                        from wh import EXC; exp=(True, EXC[sp["out"]].__name__)
                    if (kw["is_err"],kw["err"])!=exp: v.append(f"C07 result {kw} exp {exp}")
        else:
            if "enter" in kinds: v.append("C01 skipped msg executed")
    # C03/C04 sweep
    first={}; last={}
    for n,(t,kind,m,kw) in enumerate(tr):
        key = m if isinstance(m,int) else (int(m[2:]) if isinstance(m,str) and m.startswith("id") else None)
        if key is None or kind=="take": continue
        first.setdefault(key,n); last[key]=n
    active=0; mx=0
    pts=sorted([(first[k],1) for k in first]+[(last[k]+0.5,-1) for k in last])
    for _,d in pts:
        active+=d; mx=max(mx,active)
    if mx>A: v.append(f"C03 over limit {mx}>{A}")
    takepos={m:n for n,(t,k,m,kw) in enumerate(tr) if k=="take"}
    pts=sorted([(takepos[m],1) for m in takepos if good(m)]+[(last[m]+0.5,-1) for m in takepos if good(m) and m in last])
    unf=0; mu=0
    for _,d in pts: unf+=d; mu=max(mu,unf)
    if mu>A+P+1: v.append(f"C04 {mu}>{A+P+1}")
    stats["max_unfinished_eq_bound"] += (mu==A+P+1)
    return v
cnt=[0]
@seed(int(os.environ.get("VERIF_SEED","1")))
@settings(max_examples=int(os.environ.get("N","1500")), deadline=None, database=None, suppress_health_check=list(HealthCheck))
@given(scen)
def test(sc):
    sc=dict(sc); sc["msgs"]=sorted(sc["msgs"], key=lambda m:m["at"])
    cnt[0]+=1
    res = run_scenario(sc)
    v = check(sc,res)
    assert not v, (v, sc, res["trace"])
t=time.time()
try: test(); print("OK")
except AssertionError as e:
    print("FOUND", str(e)[:3000])
print(cnt[0], time.time()-t, stats)
