import asyncio, sys, logging
sys.path.insert(0, __import__("os").path.dirname(__import__("os").path.abspath(__file__)))
from vloop import run
from taskiq import AsyncBroker, BrokerMessage, AckableMessage
from taskiq.receiver import Receiver

class B(AsyncBroker):
    def __init__(self, script):
        super().__init__(); self.script = script; self.taken = []
    async def kick(self, m): pass
    async def listen(self):
        loop = asyncio.get_running_loop()
        for at, data in self.script:
            d = at - loop.time()
            if d > 0: await asyncio.sleep(d)
            self.taken.append((loop.time(), data)); yield data
        await asyncio.Event().wait()

async def main(A, P, N, nmsg, dur):
    loop = asyncio.get_running_loop()
    execd = []
    b = B([])
    @b.task(task_name="t")
    async def t(i):
        execd.append((loop.time(), i)); await asyncio.sleep(dur)
    msgs = []
    for i in range(nmsg):
        m = b.formatter.dumps(t.kicker().with_task_id(f"id{i}")._prepare_message(i))
        msgs.append((0.0, m.message))
    b.script = msgs
    r = Receiver(b, max_async_tasks=A, max_prefetch=P, max_tasks_to_execute=N, run_startup=False)
    ev = asyncio.Event()
    await r.listen(ev)
    print("A",A,"P",P,"N",N,"taken", len(b.taken), "executed", len(execd), "end", loop.time())

logging.disable(logging.CRITICAL)
for A,P,N in [(1,0,1),(1,0,2),(2,0,1),(1,1,1),(2,2,3),(3,0,2)]:
    run(main(A,P,N,6,1.0))
