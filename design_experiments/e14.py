import datetime as dtm, random, zoneinfo, sys, collections
import pytz
import taskiq.cli.scheduler.run as R
from taskiq.scheduler.scheduled_task import ScheduledTask
U = dtm.timezone.utc
class FakeDT(dtm.datetime):
    cur = None
    @classmethod
    def now(cls, tz=None):
        return cls.cur.astimezone(tz) if tz else cls.cur.replace(tzinfo=None)
R.datetime = FakeDT
rng = random.Random(1)
RANGES = [(0,59),(0,23),(1,31),(1,12),(0,6)]
def gen_field(lo, hi):
    k = rng.random()
    if k < 0.35: return "*"
    if k < 0.5: return f"*/{rng.randint(1, max(1,(hi-lo)//2))}"
    items=[]
    for _ in range(rng.randint(1,3)):
        r = rng.random()
        a = rng.randint(lo,hi)
        if r < 0.5: items.append(str(a))
        else:
            b = rng.randint(a,hi)
            if r < 0.8: items.append(f"{a}-{b}")
            else: items.append(f"{a}-{b}/{rng.randint(1,5)}")
    return ",".join(items)
def field_set(f, lo, hi):
    if f == "*": return None
    s=set()
    for it in f.split(","):
        if it.startswith("*/"):
            n=int(it[2:]); s |= set(range(lo,hi+1,n))
        elif "-" in it:
            step=1
            if "/" in it: it, st = it.split("/"); step=int(st)
            a,b = map(int, it.split("-")); s |= set(range(a,b+1,step))
        else: s.add(int(it))
    return s
def match(expr, local):
    mi,h,dom,mo,dow = expr.split(" ")
    sets = [field_set(f,lo,hi) for f,(lo,hi) in zip((mi,h,dom,mo,dow),RANGES)]
    wd = local.isoweekday() % 7
    def ok(s,v): return s is None or v in s
    if not (ok(sets[0],local.minute) and ok(sets[1],local.hour) and ok(sets[3],local.month)): return False
    dom_star = dom.startswith("*"); dow_star = dow.startswith("*")
    if not dom_star and not dow_star:
        return (local.day in sets[2]) or (wd in sets[4])
    return ok(sets[2],local.day) and ok(sets[4],wd)
zones = ["Europe/Berlin","Asia/Kathmandu","Australia/Lord_Howe","America/St_Johns","Pacific/Chatham","Pacific/Apia","America/New_York","America/Sao_Paulo"]
n=0; bad=0; res=collections.Counter()
for it in range(20000):
    expr = " ".join(gen_field(lo,hi) for lo,hi in RANGES)
    t = dtm.datetime(2015,1,1,tzinfo=U) + dtm.timedelta(microseconds=rng.randrange(21*365*86400*10**6))
    k = rng.random()
    if k<0.3: off=None; local=t
    elif k<0.6:
        off=dtm.timedelta(seconds=rng.randint(-26*3600,26*3600)); local=t+off
    else:
        off=rng.choice(zones); local=t.astimezone(zoneinfo.ZoneInfo(off))
    FakeDT.cur = t
    got = R.get_task_delay(ScheduledTask(task_name="x",labels={},args=[],kwargs={},cron=expr,cron_offset=off))
    exp = 0 if match(expr, local) else None
    res[got]+=1; n+=1
    if got != exp:
        bad+=1
        if bad<10: print("MISMATCH", expr, t, off, local, got, exp)
print(n,bad,res)
