import asyncio, sys, logging, time, os
sys.path.insert(0, __import__("os").path.dirname(__import__("os").path.abspath(__file__)))
from vloop import run
from e2 import B
from taskiq.receiver import Receiver
from hypothesis import given, settings, strategies as st, seed, HealthCheck, Phase
logging.disable(logging.CRITICAL)
G = 0.05
times = st.integers(0, 60).map(lambda k: k*G)
scen = st.fixed_dictionaries(dict(
    A=st.integers(1,3), P=st.integers(0,3), N=st.one_of(st.none(), st.integers(1,4)),
    msgs=st.lists(st.tuples(times, st.sampled_from([0.0,0.05,0.3,1.0])), min_size=1, max_size=7),
    stop=times))
async def main(sc):
    loop = asyncio.get_running_loop(); execd=[]
    b = B([])
    durs=[m[1] for m in sc["msgs"]]
    @b.task(task_name="t")
    async def t(i):
        execd.append(i); await asyncio.sleep(durs[i])
    arr = sorted(m[0] for m in sc["msgs"])
    b.script=[(at, b.formatter.dumps(t.kicker().with_task_id(f"id{i}")._prepare_message(i)).message) for i,at in enumerate(arr)]
    r = Receiver(b, max_async_tasks=sc["A"], max_prefetch=sc["P"], max_tasks_to_execute=sc["N"], run_startup=False)
    ev = asyncio.Event(); loop.call_at(sc["stop"], ev.set)
    await r.listen(ev)
    return len(b.taken), len(execd)
cnt=[0]
@seed(int(os.environ.get("VERIF_SEED","1")))
@settings(max_examples=2000, deadline=None, database=None, suppress_health_check=list(HealthCheck))
@given(scen)
def test(sc):
    cnt[0]+=1
    tk, ex = run(main(sc))
    assert tk == ex, (tk, ex)
t=time.time()
try: test()
except AssertionError as e: print("FOUND", e)
print(cnt[0], time.time()-t)
