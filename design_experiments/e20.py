import datetime as dtm, random, zoneinfo, pytz
import taskiq.cli.scheduler.run as R
from taskiq.scheduler.scheduled_task import ScheduledTask
U=dtm.timezone.utc; EPOCH=dtm.datetime(1970,1,1,tzinfo=U)
class FakeDT(dtm.datetime):
    cur=None
    @classmethod
    def now(cls, tz=None): return cls.cur.astimezone(tz) if tz else cls.cur.replace(tzinfo=None)
R.datetime=FakeDT
rng=random.Random(3)
def us(d): return (d-EPOCH)//dtm.timedelta(microseconds=1)
bad=0; cls={}
for it in range(200000):
    now = dtm.datetime(2024,1,1,tzinfo=U)+dtm.timedelta(microseconds=rng.randrange(366*86400*10**6))
    k=rng.random()
    if k<0.3: now=now.replace(second=rng.choice([0,59]), microsecond=rng.choice([0,1,999999,500000]))
    nb = (us(now)//60_000_000+1)*60_000_000  # next minute boundary
    choice=rng.random()
    if choice<0.3: delta = rng.choice([0,1,-1,1_000_000,999_999,1_000_001, nb+1_000_000-us(now), nb+1_000_001-us(now), nb+999_999-us(now), nb-us(now)])
    elif choice<0.7: delta = rng.randrange(-5_000_000, 70_000_000)
    else: delta = rng.randrange(-2*86400*10**6, 2*86400*10**6)
    T = now+dtm.timedelta(microseconds=delta)
    sp = rng.random()
    if sp<0.25: Tt=T.replace(tzinfo=None)
    elif sp<0.5: Tt=T.astimezone(dtm.timezone(dtm.timedelta(hours=rng.randint(-12,14), minutes=rng.choice([0,30,45]))))
    elif sp<0.75: Tt=T.astimezone(zoneinfo.ZoneInfo(rng.choice(["Europe/Berlin","Asia/Kathmandu","America/New_York"])))
    else: Tt=T.astimezone(pytz.timezone(rng.choice(["Europe/Berlin","Asia/Kathmandu","America/New_York"])))
    FakeDT.cur=now
    got=R.get_task_delay(ScheduledTask(task_name="x",labels={},args=[],kwargs={},time=Tt))
    n_,t_=us(now),us(T)
    if t_<=n_: ok = got==0; c="past"
    elif t_>nb+1_000_000: ok = got is None; c="later"
    else:
        ok = isinstance(got,int) and t_ <= n_+got*1_000_000 < t_+1_000_000; c="delay"
    cls[c]=cls.get(c,0)+1
    if not ok:
        bad+=1
        if bad<10: print("BAD", now, Tt, got, c)
print(bad, cls)
