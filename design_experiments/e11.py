import sys, types, time, logging, itertools
import taskiq.cli.worker.process_manager as pm
from taskiq.cli.worker.args import WorkerArgs
logging.disable(logging.CRITICAL)

class Stop(BaseException): pass
class World:
    def __init__(self, history):
        self.history = list(history); self.tick = 0
        self.procs = []; self.trace = []; self.handlers = {}; self.next_pid = 100
    # fakes
    def Process(self, target=None, kwargs=None, name=None, daemon=None):
        p = FP(self, name); self.procs.append(p); return p
    def sleep(self, s):
        if self.tick >= len(self.history): raise Stop()
        ev = self.history[self.tick]; self.tick += 1
        self.trace.append(("tick", self.tick))
        for i in ev.get("die", ()):
            cur = [p for p in self.procs if p.slot == i and p.state == "alive"]
            for p in cur: p.state = "zombie"; self.trace.append(("die", i, p.pid))
        for s in ev.get("sig", ()):
            self.handlers[s](s, None)
    def kill(self, pid, sig):
        p = next((p for p in self.procs if p.pid == pid), None)
        self.trace.append(("kill", pid, sig, p.state if p else None))
        if p is None or p.state == "reaped": raise ProcessLookupError(pid)
class FP:
    def __init__(self, w, name): self.w=w; self.name=name; self.slot=int(name.split("-")[1]); self.pid=None; self.state="new"
    def start(self):
        self.pid = self.w.next_pid; self.w.next_pid += 1; self.state="alive"; self.w.trace.append(("start", self.slot, self.pid))
    def is_alive(self):
        if self.state == "zombie": self.state = "reaped"
        return self.state == "alive"
    def terminate(self):
        self.w.trace.append(("terminate", self.slot, self.pid))
        if self.state == "alive": self.state = "zombie"
    def join(self):
        self.w.trace.append(("join", self.slot, self.pid))
        if self.state == "alive": raise RuntimeError("join would block forever")
        if self.state == "zombie": self.state = "reaped"
class FQ:
    def __init__(self, *a): self.q=[]
    def put(self, x): self.q.append(x)
    def get(self): return self.q.pop(0)
    def empty(self): return not self.q
class FE:
    def wait(self, t): return False

def run(workers, max_fails, history):
    w = World(history)
    sig = types.SimpleNamespace(SIGINT=2, SIGTERM=15, SIGHUP=1, signal=lambda s,h: w.handlers.__setitem__(s,h))
    pm.signal = sig; pm.Process = w.Process; pm.sleep = w.sleep; pm.Queue = FQ; pm.Event = FE
    pm.os = types.SimpleNamespace(kill=w.kill)
    pm.current_process = lambda: types.SimpleNamespace(name="MainProcess")
    args = WorkerArgs(broker="x:y", modules=[], workers=workers, max_fails=max_fails)
    m = pm.ProcessManager(args, worker_function=lambda args: None)
    try:
        ret = m.start()
    except Stop:
        ret = "running"
    except Exception as e:
        ret = f"EXC {type(e).__name__}"
    return ret, w.trace

print(run(2, -1, [{"die":[0]}, {}, {"sig":[1]}, {"die":[1],"sig":[15]}]))
print(run(2, 2, [{"die":[0]}, {"die":[1]}, {}, {}]))
t=time.time(); n=0
alpha = [dict(die=d, sig=s) for d in ([],[0],[1],[0,1]) for s in ([],[1],[15],[1,15])]
for h in itertools.product(alpha, repeat=3):
    run(2, 2, h); n+=1
print(n, time.time()-t)
