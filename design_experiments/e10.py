import asyncio, logging
from taskiq import AsyncBroker, TaskiqDepends, Context
from taskiq.receiver import Receiver
from taskiq.brokers.inmemory_broker import InmemoryResultBackend
from taskiq.serializers import PickleSerializer
logging.disable(logging.CRITICAL)
class QB(AsyncBroker):
    def __init__(self): super().__init__(); self.q=[]
    async def kick(self, m): self.q.append(m)
    async def listen(self): yield b""
async def one(name, val, ser=None):
    b = QB(); b.result_backend = InmemoryResultBackend()
    if ser: b.serializer = ser
    seen=[]
    @b.task(task_name="t", **{name: val})
    async def t(n, ctx: Context = TaskiqDepends()):
        seen.append(ctx.message.labels.get(name))
        if len(seen) < n: await ctx.requeue()
        return 1
    r = Receiver(b, max_async_tasks=10, run_startup=False)
    tk = await t.kiq(3)
    while b.q:
        await r.callback(b.q.pop(0).message)
    try: res = await b.result_backend.get_result(tk.task_id)
    except KeyError:
        class res: error="NO RESULT STORED"
    print(name, type(ser).__name__, [ (type(s).__name__, s) for s in seen], "err:", repr(res.error)[:150])
for ser in (None, PickleSerializer()):
  for name,val in dict(i=5, f=1.5, t=True, fl=False, s="x", by=b"\xff\x00", by2=b"abc", by3=b"YWJj", nan=float("nan"), inf=float("inf"), big=10**30, e=b"", u="é\U0001f600", sT="True", s5="5").items():
    asyncio.run(one(name, val, ser))
