"""C11 prototype: retry reference model vs SimpleRetryMiddleware through real encode/decode."""
import asyncio, sys, os, logging, collections
from taskiq import AsyncBroker, SimpleRetryMiddleware
from taskiq.kicker import AsyncKicker
from taskiq.receiver import Receiver
from taskiq.exceptions import NoResultError
from taskiq.brokers.inmemory_broker import InmemoryResultBackend
from hypothesis import given, settings, strategies as st, seed, HealthCheck
logging.disable(logging.CRITICAL)
class QB(AsyncBroker):
    def __init__(self): super().__init__(); self.q=[]; self.kicked=[]
    async def kick(self,m): self.q.append(m); self.kicked.append(m)
    async def listen(self): yield b""
case=st.fixed_dictionaries(dict(outs=st.lists(st.sampled_from(["fail","fail","ok","nores"]),min_size=1,max_size=8),
    mr=st.one_of(st.none(), st.tuples(st.sampled_from(["int","str"]), st.integers(0,6))), dflt_count=st.integers(0,6),
    roe=st.sampled_from([None,True,False,"True","true","False","TRUE"]), dflt_label=st.booleans(), nror=st.booleans(),
    user=st.dictionaries(st.sampled_from(["u1","u2"]), st.one_of(st.integers(),st.text(max_size=3),st.booleans()), max_size=2)))
def model(c):
    enabled = c["roe"] if isinstance(c["roe"],bool) else (c["roe"].lower()=="true" if isinstance(c["roe"],str) else c["dflt_label"])
    maxr = c["mr"][1] if c["mr"] else c["dflt_count"]
    cap = max(1,maxr) if enabled else 1
    execs=0; saves=[]
    outs=c["outs"]+["fail"]*10
    while True:
        o=outs[execs]; execs+=1
        if o=="ok": saves.append(("ok",execs)); break
        if o=="nores": break
        resend = enabled and execs<cap
        if resend:
            if not c["nror"]: saves.append(("err",execs))
            continue
        saves.append(("err",execs)); break
    return execs,saves
fails=collections.Counter(); ex={}; cnt=[0]; cls=collections.Counter()
@seed(int(os.environ.get("VERIF_SEED","1")))
@settings(max_examples=int(os.environ.get("N","2000")), deadline=None, database=None, suppress_health_check=list(HealthCheck))
@given(case)
def test(c):
    cnt[0]+=1
    async def go():
        b=QB(); saves=[]
        class RB(InmemoryResultBackend):
            async def set_result(self,tid,res): saves.append(("err" if res.is_err else "ok", runs[0], tid)); await super().set_result(tid,res)
        b.result_backend=RB()
        b.add_middlewares(SimpleRetryMiddleware(default_retry_count=c["dflt_count"], default_retry_label=c["dflt_label"], no_result_on_retry=c["nror"]))
        runs=[0]; seen=[]
        outs=c["outs"]+["fail"]*10
        async def t(a, k=None):
            o=outs[runs[0]]; runs[0]+=1; seen.append((a,k))
            if o=="fail": raise ValueError("f")
            if o=="nores": raise NoResultError()
            return runs[0]
        b.register_task(t,task_name="t")
        labels=dict(c["user"])
        if c["roe"] is not None: labels["retry_on_error"]=c["roe"]
        if c["mr"]: labels["max_retries"]= c["mr"][1] if c["mr"][0]=="int" else str(c["mr"][1])
        r=Receiver(b,max_async_tasks=5,run_startup=False)
        await AsyncKicker("t",b,labels).with_task_id("T").kiq([1,"x"],k={"z":1})
        msgs=[]
        while b.q:
            m=b.q.pop(0); tm=b.formatter.loads(m.message); tm.parse_labels(); msgs.append(tm)
            await r.callback(m.message)
        return runs[0],saves,seen,msgs
    execs,saves,seen,msgs=asyncio.run(go())
    me,ms=model(c)
    cls["execs>=2"]+=me>=2; cls["mr in 0,1"]+= bool(c["mr"] and c["mr"][1] in (0,1))
    v=[]
    if execs!=me: v.append(f"a execs {execs} model {me}")
    if [(s[0],s[1]) for s in saves]!=ms: v.append(f"c saves {saves} model {ms}")
    if any(s[2]!="T" for s in saves) or any(m.task_id!="T" for m in msgs): v.append("b task id changed")
    if any(s!=([1,"x"],{"z":1}) for s in seen): v.append(f"b args changed {seen}")
    for m in msgs:
        for k,val in c["user"].items():
            if k not in m.labels or m.labels[k]!=val or type(m.labels[k])!=type(val): v.append(f"b user label {k}")
    for x in v:
        k=x[:12]; fails[k]+=1; ex.setdefault(k,(x,c))
test(); print(cnt[0], cls)
for k,cn in fails.most_common(): print(cn,k,ex[k])
