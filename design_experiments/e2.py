import asyncio, sys, logging, itertools
sys.path.insert(0, __import__("os").path.dirname(__import__("os").path.abspath(__file__)))
from vloop import run
from taskiq import AsyncBroker
from taskiq.receiver import Receiver

class B(AsyncBroker):
    def __init__(self, script):
        super().__init__(); self.script = script; self.taken = []
    async def kick(self, m): pass
    async def listen(self):
        loop = asyncio.get_running_loop()
        for at, data in self.script:
            d = at - loop.time()
            if d > 0: await asyncio.sleep(d)
            self.taken.append((loop.time(), data)); yield data
        await asyncio.Event().wait()

async def main(A, P, arrivals, durs, stop_at, wtt=None):
    loop = asyncio.get_running_loop()
    execd = []; done=[]
    b = B([])
    @b.task(task_name="t")
    async def t(i):
        execd.append((loop.time(), i)); await asyncio.sleep(durs[i]); done.append((loop.time(), i))
    msgs = []
    for i, at in enumerate(arrivals):
        m = b.formatter.dumps(t.kicker().with_task_id(f"id{i}")._prepare_message(i))
        msgs.append((at, m.message))
    b.script = msgs
    r = Receiver(b, max_async_tasks=A, max_prefetch=P, run_startup=False, wait_tasks_timeout=wtt)
    ev = asyncio.Event()
    loop.call_at(stop_at, ev.set)
    await r.listen(ev)
    end = loop.time()
    taken_after = [x for x in b.taken if x[0] > stop_at]
    return len(b.taken), len(execd), len(done), end, len(taken_after)

if __name__=="__main__":
    logging.disable(logging.CRITICAL)
    bad = 0; n=0
    for A in (1,2):
      for P in (0,1,2):
        for arr in ([0,0,0,0,0,0],[0,0.5,1.0,1.5,2.0,2.5],[0,0.1,0.2,2.0,2.05,2.1],[1.0,1.0,1.29,1.3,1.31,5]):
          for dur in (0.0, 0.25, 1.0):
            for stop in [0.0,0.05,0.3,0.31,0.5,0.6,0.9,1.0,1.01,1.2,1.3,1.5,2.0,2.05,2.3,3.0]:
                n+=1
                tk, ex, dn, end, ta = run(main(A,P,arr,[dur]*6,stop))
                if tk != ex or ex != dn or ta > 1:
                    bad += 1
                    if bad < 15: print("A",A,"P",P,arr,dur,"stop",stop,"taken",tk,"exec",ex,"done",dn,"end",end,"taken_after_stop",ta)
    print(n, bad)
