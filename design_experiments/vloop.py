import asyncio, selectors, heapq

class VirtualTimeLoop(asyncio.SelectorEventLoop):
    """Event loop whose clock only advances when nothing is runnable."""
    def __init__(self):
        super().__init__()
        self._vtime = 0.0
        orig_select = self._selector.select
        def select(timeout=None):
            # never block in real time: poll the selector, then jump the clock
            events = orig_select(0)
            if not events and timeout is not None and timeout > 0:
                self._vtime += timeout
            elif not events and timeout is None:
                raise RuntimeError("virtual loop deadlock: nothing scheduled")
            return events
        self._selector.select = select
    def time(self):
        return self._vtime

def run(coro):
    loop = VirtualTimeLoop()
    try:
        asyncio.set_event_loop(loop)
        return loop.run_until_complete(coro)
    finally:
        loop.close()
        asyncio.set_event_loop(None)
