"""C05 prototype: shutdown oracle a-d with W, long and never-ending tasks."""
import sys, os, time, collections
sys.path.insert(0, os.path.dirname(os.path.abspath(__file__)))
from wh import run_scenario
from hypothesis import given, settings, strategies as st, seed, HealthCheck
G=0.05
tm = st.one_of(st.integers(0,60).map(lambda k: round(k*G,9)), st.integers(0,8).flatmap(lambda k: st.sampled_from([-1e-6,0.0,1e-6]).map(lambda e: round(max(0,k*0.3+e),9))))
msg = st.fixed_dictionaries(dict(kind=st.just("async"), at=tm, dur=st.sampled_from([0.0,0.05,0.3,1.0,4.0,1e6]), out=st.sampled_from(["ret","ret","ValueError"]), ack=st.just("sync"), timeout=st.none()))
scen = st.fixed_dictionaries(dict(A=st.integers(1,3), P=st.integers(0,2), W=st.sampled_from([None,0.5,2.0,5.0]), ack_type=st.just("when_saved"),
    msgs=st.lists(msg, min_size=0, max_size=7), stop=tm))
cnt=[0]; fails=collections.Counter(); ex={}; cls=collections.Counter()
INF=55.0
@seed(int(os.environ.get("VERIF_SEED","1")))
@settings(max_examples=int(os.environ.get("N","2000")), deadline=None, database=None, suppress_health_check=list(HealthCheck))
@given(scen)
def test(sc):
    sc=dict(sc); sc["msgs"]=sorted(sc["msgs"], key=lambda m:m["at"]); sc["ends"]=False; sc["N"]=None
    sc["horizon"]=60.0; sc["drain"]=0.0
    cnt[0]+=1
    res=run_scenario(sc); tr=res["trace"]; A=sc["A"]; W=sc["W"]; s=sc["stop"]
    v=[]
    istop=next(n for n,e in enumerate(tr) if e[1]=="stop")
    takes=[(n,e) for n,e in enumerate(tr) if e[1]=="take"]
    if sum(1 for n,e in takes if n>istop)>1: v.append("a >1 take after stop")
    R=next((e[0] for e in tr if e[1]=="return"), None)
    taken=[e[2] for n,e in takes]
    enter={e[2]:e[0] for e in tr if e[1]=="enter"}; fin={}
    for e in tr:
        if e[1]=="ack": fin[e[2]]=e[0]
    D=max([fin.get(i,float("inf")) for i in taken], default=0.0)
    if any(i not in enter for i in taken) and R is not None and W is None: v.append("b taken not executed")
    Wv=float("inf") if W is None else W
    if R is None:
        lower_ok=True
    else:
        if R < min(D, s+Wv)-1e-6: v.append(f"c early return R={R} D={D} s={s} W={W}")
        if W is None and any(fin.get(i,float('inf'))>R+1e-9 for i in taken): v.append("b returned before completion")
    T0=max([s]+[enter[i] for i in taken if i in enter])
    bound=max(T0, min(D, T0+Wv))+1.0
    late = (R is None and bound<INF) or (R is not None and R>bound)
    if late:
        # saturation signature: running at T0 == A
        running=sum(1 for i in taken if i in enter and enter[i]<=T0 and fin.get(i,float('inf'))>T0)
        sat = (W is not None and running>=A)
        v.append(("d late [saturated]" if sat else "d late [UNSATURATED]")+f" R={R} bound={bound} T0={T0} D={D} running={running}")
    cls["W_elapsed_before_D"]+= (W is not None and s+W<D)
    cls["stop_while_running"]+= any(i in enter and enter[i]<=s<fin.get(i,float('inf')) for i in taken)
    for x in v:
        k=x.split(" R=")[0][:40]; fails[k]+=1; ex.setdefault(k,(x,sc))
t=time.time(); test(); print(cnt[0], time.time()-t, cls)
for k,c in fails.most_common(): print(c,k); print("    ",ex[k][0]); print("    ",{kk:vv for kk,vv in ex[k][1].items() if kk!='msgs'}, [(m['at'],m['dur']) for m in ex[k][1]['msgs']])
