"""C08 prototype: generated signatures / call splits; binding + conversion oracle."""
import asyncio, sys, os, logging, collections, dataclasses, typing, json
sys.path.insert(0, os.path.dirname(os.path.abspath(__file__)))
import pydantic
from taskiq import InMemoryBroker, TaskiqDepends, Context
from taskiq.serializers import PickleSerializer
from taskiq.formatters.json_formatter import JSONFormatter
from hypothesis import given, settings, strategies as st, seed, HealthCheck
logging.disable(logging.CRITICAL)
class M(pydantic.BaseModel):
    x: int; y: str = "d"
@dataclasses.dataclass
class D:
    a: int; b: typing.List[int] = dataclasses.field(default_factory=list)
ANN={"none":None,"Any":"typing.Any","int":"int","float":"float","str":"str","bool":"bool","List[int]":"typing.List[int]","Dict[str,int]":"typing.Dict[str,int]","Optional[int]":"typing.Optional[int]","M":"M","D":"D"}
ANN_OBJ={"Any":typing.Any,"int":int,"float":float,"str":str,"bool":bool,"List[int]":typing.List[int],"Dict[str,int]":typing.Dict[str,int],"Optional[int]":typing.Optional[int],"M":M,"D":D}
scal=st.one_of(st.none(),st.booleans(),st.integers(-2**70,2**70),st.floats(allow_nan=False,allow_infinity=False),st.text(max_size=4),st.sampled_from(["1","2.5","true","x"]))
jsonv=st.recursive(scal, lambda c: st.one_of(st.lists(c,max_size=3), st.dictionaries(st.text(max_size=3),c,max_size=3)), max_leaves=5)
ambig=st.sampled_from(["7","1","0","2.5","true",1,0,7,2.0,True,{"x":1},{"x":"4"},{"a":"1"},{"a":2,"b":["3"]},[1,"2"],["5"],{"k":"3"},{"k":1}])
value=st.one_of(ambig, ambig, ambig, jsonv, st.builds(lambda x,y: ("M",x,y), st.integers(-5,5), st.text(max_size=3)), st.builds(lambda a,b: ("D",a,b), st.integers(-5,5), st.lists(st.integers(0,3),max_size=2)),
               st.lists(st.integers(0,9),max_size=3), st.dictionaries(st.text(max_size=2), st.integers(0,9), max_size=2), st.fixed_dictionaries({"x":st.integers(0,9)}), st.fixed_dictionaries({"a":st.integers(0,9)}))
param=st.fixed_dictionaries(dict(ann=st.sampled_from(sorted(ANN)+["none","none","int","float","bool"]), kwonly=st.sampled_from([False,False,False,True]), has_default=st.booleans(), dep=st.sampled_from([False]*7+[True]), val=value, omit=st.sampled_from([False,False,False,True]), as_kw=st.sampled_from([False,False,False,True])))
case=st.tuples(st.lists(param,min_size=1,max_size=6), st.booleans(), st.sampled_from(["json","pickle","jsonfmt"]))
def mkval(v):
    if isinstance(v,tuple) and v and v[0]=="M": return M(x=v[1],y=v[2])
    if isinstance(v,tuple) and v and v[0]=="D": return D(a=v[1],b=v[2])
    return v
def wire(v):
    v=mkval(v)
    if isinstance(v,M): return v.model_dump(mode="json")
    if isinstance(v,D): return dataclasses.asdict(v)
    return v
def strict_eq(a,b):
    if type(a)!=type(b): return False
    if isinstance(a,list): return len(a)==len(b) and all(strict_eq(x,y) for x,y in zip(a,b))
    if isinstance(a,dict): return a.keys()==b.keys() and all(strict_eq(a[k],b[k]) for k in a)
    return a==b
fails=collections.Counter(); ex={}; cnt=[0]; cls=collections.Counter()
@seed(int(os.environ.get("VERIF_SEED","1")))
@settings(max_examples=int(os.environ.get("N","2000")), deadline=None, database=None, suppress_health_check=list(HealthCheck))
@given(case)
def test(c):
    params,validate,ser=c
    # order: positional params (non-kwonly) first, then kwonly
    pos=[p for p in params if not p["kwonly"]]; kwo=[p for p in params if p["kwonly"]]
    # python syntax: non-default after default not allowed among positional -> make all after first default have defaults
    seen_def=False
    for p in pos:
        if p["has_default"] or p["dep"]: seen_def=True
        elif seen_def: p["has_default"]=True
    names={}
    src=[]; plist=[]
    for k,p in enumerate(pos+kwo):
        nm=f"p{k}"; names[id(p)]=nm
        a=ANN[p["ann"]]
        if p["dep"]:
            frag=f"{nm}: Context = TaskiqDepends()"
        else:
            frag=nm+(f": {a}" if a else "")+(" = 'DEFAULT'" if p["has_default"] else "")
        plist.append((p,frag))
    sig=", ".join(f for p,f in plist if not p["kwonly"])
    if kwo: sig+=(", " if sig else "")+"*, "+", ".join(f for p,f in plist if p["kwonly"])
    got={}
    ns={"typing":typing,"M":M,"D":D,"Context":Context,"TaskiqDepends":TaskiqDepends,"GOT":got,"__name__":__name__}
    allnames=[names[id(p)] for p,_ in plist]
    exec(f"async def task({sig}):\n    GOT.update(dict("+", ".join(f"{n}={n}" for n in allnames)+"))\n", ns)
    # call split: positional prefix up to first dep / first omitted / first as_kw
    args=[]; kwargs={}; positional_open=True
    for p in pos:
        nm=names[id(p)]
        if p["dep"]: positional_open=False; continue
        if p["has_default"] and p["omit"]: positional_open=False; continue
        if positional_open and not p["as_kw"]: args.append(mkval(p["val"]))
        else: positional_open=False; kwargs[nm]=mkval(p["val"])
    for p in kwo:
        nm=names[id(p)]
        if p["dep"]: continue
        if p["has_default"] and p["omit"]: continue
        kwargs[nm]=mkval(p["val"])
    b=InMemoryBroker(await_inplace=True, cast_types=validate)
    if ser=="pickle": b.serializer=PickleSerializer()
    if ser=="jsonfmt": b.formatter=JSONFormatter()
    t=b.register_task(ns["task"],task_name="t")
    cnt[0]+=1
    async def go():
        tk=await t.kiq(*args,**kwargs)
        return await tk.wait_result(timeout=1)
    res=asyncio.run(go())
    b.executor.shutdown()
    if res.is_err:
        fails[("task error", type(res.error).__name__)]+=1; ex.setdefault(("task error", type(res.error).__name__),(sig,args,kwargs,repr(res.error)[:200])); return
    unann_before_ann = any(pos[i]["ann"]=="none" and not pos[i]["dep"] and any(q["ann"]!="none" for q in pos[i+1:]) for i in range(len(pos))) and len(args)>=1
    cls["unann_before_ann"]+=unann_before_ann
    ai=0
    for p in pos+kwo:
        nm=names[id(p)]
        if p["dep"]:
            if not isinstance(got[nm],Context): fails[("dep not context",)]+=1
            continue
        sent_pos = nm not in kwargs and not (p["has_default"] and p["omit"]) and ai<len(args) and not p["kwonly"]
        if nm in kwargs: sent=wire(p["val"])
        elif sent_pos and pos.index(p)<len(args): sent=wire(p["val"])
        else:
            if got[nm]!="DEFAULT": fails[("default lost",)]+=1; ex.setdefault(("default lost",),(sig,args,kwargs,got))
            continue
        exp=sent
        if validate and p["ann"] not in ("none","Any") and sent is not None:
            try: exp=pydantic.TypeAdapter(ANN_OBJ[p["ann"]]).validate_python(sent)
            except (ValueError,RuntimeError): exp=sent
        g=got[nm]
        same = (g==exp and type(g)==type(exp)) if not isinstance(exp,(list,dict)) else strict_eq(g,exp)
        if not same:
            k=("binding", "unann_before_ann" if unann_before_ann else "other", p["ann"]); fails[k]+=1; ex.setdefault(k,(sig,args,kwargs,nm,g,exp))
test(); print(cnt[0], cls)
for k,c_ in fails.most_common(25): print(c_,k); print("    ",str(ex.get(k))[:400])
