import asyncio, sys, logging
sys.path.insert(0, __import__("os").path.dirname(__import__("os").path.abspath(__file__)))
from vloop import run
from taskiq import AsyncBroker, Context, TaskiqDepends, InMemoryBroker
from taskiq.receiver import Receiver
logging.disable(logging.CRITICAL)

async def main():
    b = InMemoryBroker()
    seen = []
    async def slow(ctx: Context = TaskiqDepends()):
        d = ctx.message.args[0]
        await asyncio.sleep(d); return 1
    def who(ctx: Context = TaskiqDepends()):
        return ctx.message.task_id
    def who2(w: str = TaskiqDepends(who, use_cache=False)):
        return w
    @b.task(task_name="t")
    async def t(d, a: int = TaskiqDepends(slow), w: str = TaskiqDepends(who, use_cache=False), w2: str = TaskiqDepends(who2), ctx: Context = TaskiqDepends()):
        seen.append((ctx.message.task_id, w, w2)); return w
    r = Receiver(b, max_async_tasks=10, run_startup=False)
    m1 = b.formatter.dumps(t.kicker().with_task_id("id1")._prepare_message(1.0)).message
    m2 = b.formatter.dumps(t.kicker().with_task_id("id2")._prepare_message(0.1)).message
    await asyncio.gather(r.callback(m1), r.callback(m2))
    print(seen)
    for k in ("id1","id2"):
        print(k, (await b.result_backend.get_result(k)).return_value)
run(main())
