"""C20 prototype: trap module, nested payloads, unloaded-module import check."""
import sys, os, types, functools, collections, tempfile, shutil
import taskiq, taskiq.cli.worker.run, taskiq.cli.scheduler.run
import pydantic
from taskiq.result import TaskiqResult
from taskiq.serialization import exception_to_python
from taskiq.exceptions import SecurityError
CALLS=[]
trap=types.ModuleType("verif_traps")
def fn(*a,**k): CALLS.append(("fn",a)); return "pwned"
class NotExc:
    def __new__(cls,*a,**k): CALLS.append(("NotExc.__new__",a)); return super().__new__(cls)
    def __init__(self,*a,**k): CALLS.append(("NotExc.__init__",a))
    class InnerExc(ValueError): pass
    class InnerNot:
        def __init__(self,*a): CALLS.append(("InnerNot",a))
    @staticmethod
    def sm(*a): CALLS.append(("sm",a))
    @classmethod
    def cm(cls,*a): CALLS.append(("cm",a))
class Callable_:
    def __call__(self,*a): CALLS.append(("instance call",a)); return ValueError("x")
class GoodExc(Exception): pass
trap.fn=fn; trap.NotExc=NotExc; trap.inst=Callable_(); trap.part=functools.partial(fn,1); trap.GoodExc=GoodExc; trap.exc_instance=ValueError("i"); trap.sub=trap; trap.lam=lambda *a: CALLS.append(("lam",a))
sys.modules["verif_traps"]=trap
d=tempfile.mkdtemp(); open(os.path.join(d,"verif_unloaded_trap.py"),"w").write("open(%r,'w').write('imported')\nclass E(Exception): pass\n"%os.path.join(d,"MARK"))
sys.path.insert(0,d)
names=["fn","NotExc","inst","part","GoodExc","exc_instance","sub","lam","NotExc.InnerExc","NotExc.InnerNot","NotExc.sm","NotExc.cm","NotExc.__init__","sub.fn","sub.sub.NotExc","GoodExc.__class__","GoodExc.args","GoodExc.mro","nope","NotExc.nope","","GoodExc.with_traceback","__dict__","__name__"]
mods=["verif_traps","verif_unloaded_trap","os","builtins","not.a.module",None,"subprocess","taskiq.exceptions"]
extra={"os":["system","getcwd","path.join","environ","_exit"],"builtins":["eval","exec","object","type","print","__import__","ValueError","KeyError","BaseException","SystemExit","open"],"subprocess":["Popen","run","CalledProcessError"],"taskiq.exceptions":["TaskiqError","SecurityError","root","Any"],None:["Anything","a.b"],"not.a.module":["X"],"verif_unloaded_trap":["E"]}
out=collections.Counter(); bad=[]
def payload(m,n,args,depth,where):
    p={"exc_type":n,"exc_message":args,"exc_module":m}
    for _ in range(depth):
        p={"exc_type":"ValueError","exc_message":["outer"],"exc_module":"builtins",where:p}
    return p
for m in mods:
    for n in (names if m=="verif_traps" else extra[m]):
        for depth in (0,1,3):
            for where in ("exc_cause","exc_context"):
                for args in (["x"],[],["a",1,{"k":[1]}]):
                    before=set(sys.modules); CALLS.clear()
                    try:
                        r=TaskiqResult.model_validate({"is_err":True,"return_value":None,"execution_time":0.0,"error":payload(m,n,args,depth,where)})
                        e=r.error
                        for _ in range(depth): e=getattr(e, "__cause__" if where=="exc_cause" else "__context__")
                        k="exc:"+type(e).__name__ if isinstance(e,BaseException) else "NONEXC"
                        if not isinstance(e,BaseException): bad.append((m,n,depth,"non-exception result"))
                    except SecurityError: k="SecurityError"
                    except pydantic.ValidationError: k="ValidationError"
                    except BaseException as ex_: k="OTHER:"+type(ex_).__name__; bad.append((m,n,depth,k))
                    out[(m,n,k)]+=1
                    if CALLS: bad.append((m,n,depth,"trap called",list(CALLS)))
                    if set(sys.modules)-before: bad.append((m,n,depth,"imported",set(sys.modules)-before))
                    if os.path.exists(os.path.join(d,"MARK")): bad.append((m,n,"MARK"))
for k,v in sorted(out.items(), key=lambda kv: str(kv[0])): print(v,k)
print("BAD:",bad[:10])
shutil.rmtree(d)
