import pickle, json, sys, traceback
from taskiq.result import TaskiqResult
class ModErr(Exception): pass
class Custom(Exception):
    def __init__(self, a, b): super().__init__(f"{a}-{b}"); self.a=a; self.b=b
class KwOnly(Exception):
    def __init__(self, *, code): super().__init__(code); self.code=code
class BadRepr:
    def __repr__(self): raise RuntimeError("no repr")
    def __str__(self): raise RuntimeError("no str")
def local():
    class Loc(ValueError): pass
    return Loc
def deep(n):
    x=[]; 
    for _ in range(n): x=[x]
    return x
cases = {
 "plain": ValueError("x", 1),
 "surrogate": ValueError("bad\udcff"),
 "nan": ValueError(float("nan"), float("inf")),
 "bigint": ValueError(10**40, -2**70),
 "tuple": ValueError((1,2), {"a": (3,)}),
 "intkey": ValueError({1: 2}),
 "bytes": ValueError(b"\xff"),
 "set": ValueError({1,2}),
 "lambda": ValueError(lambda: 1),
 "badrepr": ValueError(BadRepr()),
 "deep100": ValueError(deep(100)),
 "deep300": ValueError(deep(300)),
 "deep2000": ValueError(deep(2000)),
 "custom": Custom(1, 2),
 "kwonly": KwOnly(code=5),
 "local": local()("l"),
 "unicodeerr": UnicodeDecodeError("utf-8", b"\xff", 0, 1, "bad"),
 "oserror": FileNotFoundError(2, "No such file", "fn"),
 "sysexit": SystemExit(3),
 "kbd": KeyboardInterrupt(),
 "strsub": ValueError(type("S", (str,), {})("abc")),
 "nul": ValueError("a\x00b"),
 "keyerr": KeyError("k"),
 "group": ExceptionGroup("g", [ValueError(1), TypeError(2)]),
 "stopiter": StopIteration(5),
}
import asyncio
cases["cancelled"] = asyncio.CancelledError("c")
from taskiq.exceptions import TaskiqResultTimeoutError, NoResultError, SecurityError
cases["taskiq_timeout"] = TaskiqResultTimeoutError(timeout=1.5)
cases["security"] = SecurityError(description="d")
a = ValueError("a"); b = TypeError("b"); a.__cause__ = b; b.__cause__ = a; b.__context__ = a
cases["cycle"] = a
for name, exc in cases.items():
    r = TaskiqResult(is_err=True, return_value=None, execution_time=0.1, error=exc)
    out = []
    for kind in ("json", "dict", "pickle"):
        try:
            if kind == "json":
                l = TaskiqResult.model_validate_json(r.model_dump_json())
            elif kind == "dict":
                l = TaskiqResult.model_validate(r.model_dump())
            else:
                l = pickle.loads(pickle.dumps(r))
            e = l.error
            out.append(f"{kind}: {type(e).__module__}.{type(e).__qualname__} args={str(e.args)[:60]!r} cause={type(e.__cause__).__name__} ctx={type(e.__context__).__name__}")
        except BaseException as ex:
            out.append(f"{kind}: FAIL {type(ex).__name__}: {str(ex)[:100]}")
    print(name); [print("   ", o) for o in out]
