import asyncio, datetime as dtm, logging
from taskiq import AsyncBroker, TaskiqScheduler, InMemoryBroker, async_shared_broker
from taskiq.schedule_sources import LabelScheduleSource
from taskiq.scheduler.scheduled_task import ScheduledTask
logging.disable(logging.CRITICAL)
class QB(AsyncBroker):
    def __init__(self): super().__init__(); self.q=[]
    async def kick(self, m): self.q.append(m)
    async def listen(self): yield b""
async def main():
    b = QB(); other = QB()
    T1 = dtm.datetime(2030,1,1,12,0); T2 = dtm.datetime(2030,1,1,13,0)
    @b.task(task_name="a", schedule=[{"time":T1,"args":[1]},{"cron":"* * * * *","labels":{"x":1}},{"time":T1,"args":[2]},{"time":T2},{"bogus":1},{"cron":"*/5 * * * *","time":T1}], lab="L")
    def a(*args): pass
    @b.task(task_name="b", schedule=[{"time":T1,"args":[9]}])
    def bb(*args): pass
    @other.task(task_name="c", schedule=[{"time":T1}])
    def c(): pass
    @async_shared_broker.task(task_name="sh", schedule=[{"cron":"* * * * *"}])
    def sh(): pass
    src = LabelScheduleSource(b); sch = TaskiqScheduler(b,[src])
    def show():
        return [(s.task_name, s.cron, s.time, s.args) for s in asyncio.get_event_loop().run_until_complete(src.get_schedules())] if False else None
    ss = await src.get_schedules()
    print([(s.task_name, s.cron, str(s.time), s.args, sorted(s.labels)) for s in ss])
    # fire second T1 entry of a (args [2])
    target = [s for s in ss if s.task_name=="a" and s.args==[2]][0]
    await sch.on_ready(src, target)
    ss = await src.get_schedules()
    print([(s.task_name, s.cron, str(s.time), s.args) for s in ss])
    m = b.q[-1]; tm = b.formatter.loads(m.message); tm.parse_labels(); print(tm.task_name, tm.args, {k:(v if k!='schedule' else '...') for k,v in tm.labels.items()})
    print(a.labels.keys(), [sorted(e) for e in a.labels["schedule"]])
    AsyncBroker.global_task_registry.clear()
asyncio.run(main())
