#!/venv/bin/python
"""Regenerate DESIGN.md section 8 (between the markers) from mutants/RESULTS.json and seeded/*/meta.json."""
import glob
import json
import os
import re

ROOT = os.path.dirname(os.path.dirname(os.path.abspath(__file__)))
res = json.load(open(os.path.join(ROOT, "mutants", "RESULTS.json")))
lines = []
lines.append("## 8. Sensitivity: which checks catch which changes\n")
lines.append("Two catalogues, both run by `tools/sensitivity.py mutants [PID ...]` (scratch copy of `/repo/taskiq` + patch, "
             "`VERIF_REPO=<scratch> ./check <PID> quick`, exit 1 with a VIOLATION line expected; outcome of the last run in "
             "`mutants/RESULTS.json`):\n")
lines.append("* `mutants/<ID>/*.diff` - hand-written while building each check (equivalent mutants were deleted, see section 6).")
lines.append("* `seeded/<ID>[b-q]/` (17 rounds) - written by independent sub-agents that were given only the property text and a scratch git "
             "worktree (nothing from /verif) and asked for a change that needs something specific to manifest; every one was "
             "re-verified by `tools/import_seed.py` (repository suite still 146 passed with the change; the agent's `demo.py` exits 1 "
             "with it and 0 without) before it was kept.  `meta.json` records what it needs to manifest, what was run, and - when "
             "the first run of the check missed it - what was strengthened.\n")
seeds = {}
for mp in sorted(glob.glob(os.path.join(ROOT, "seeded", "*", "meta.json"))):
    m = json.load(open(mp))
    seeds[os.path.basename(os.path.dirname(mp))] = m
tot = len(seeds)
missed_first = [k for k, m in seeds.items() if str(m.get("first_attempt", "")).startswith("missed")]
rounds = sorted({(k[3:] or "a") for k in seeds})
lines.append(f"Seeded changes: {tot} in {len(rounds)} rounds ({rounds[0]}-{rounds[-1]}); {tot - len(missed_first)} were caught by the check as it stood when the change "
             f"arrived, {len(missed_first)} were missed at first and led to the strengthening listed below; all are caught now "
             f"unless the table says otherwise.  The misses had a common shape - legal but unusual *usage* the generators "
             f"did not produce (inherited or deferred hooks, future-returning acks, redirected kickers, same-named shared tasks, "
             f"schedules made through the public API, hosting the manager in a child process, zero-valued flags), state kept "
             f"between two calls (cached kickers, memoised conversions, remembered verdicts), and work that outlives its "
             f"cancellation - rather than weak oracles; the generators were widened accordingly for *every* property, not just "
             f"for the seed that exposed the gap.\n")
lines.append("| property | hand-written mutants (caught/total) | seeded changes: what it needs -> clauses that catch it |")
lines.append("|---|---|---|")
for i in range(1, 21):
    pid = "C%02d" % i
    mk = {k: v for k, v in res.items() if k.startswith(pid + ":mutants/")}
    caught = sum(1 for v in mk.values() if v["caught"])
    cell = []
    for sname, m in seeds.items():
        if m.get("property") != pid:
            continue
        r = res.get(f"{pid}:seeded/{sname}/patch.diff")
        status = ("caught by " + ",".join(c for c in r["clauses"] if c.startswith("C"))) if r and r["caught"] else ("NOT CAUGHT" if r else "not run")
        if str(m.get("status", "")).startswith("neutralised"):
            status = "no longer breaks the property (" + m["status"] + ")"
        first = "" if not str(m.get("first_attempt", "")).startswith("missed") else f" (missed at first: {m.get('strengthening', '')})"
        what = re.sub(r"\s+", " ", (m.get("needs_to_manifest") or ""))
        what = re.sub(r"[|`*#]", "", what)[:150]
        cell.append(f"**{sname}** {what}... -> {status}{first}")
    lines.append(f"| {pid} | {caught}/{len(mk)} | " + "<br>".join(cell) + " |")
lines.append("")
lines.append("Hand-written mutants per property are listed in `mutants/<ID>/` (file names say what they do); none is currently missed.\n")
text = "\n".join(lines)
p = os.path.join(ROOT, "DESIGN.md")
s = open(p).read()
a, b = "<!-- SENSITIVITY:BEGIN -->", "<!-- SENSITIVITY:END -->"
if a in s:
    s = s[: s.index(a) + len(a)] + "\n" + text + "\n" + s[s.index(b):]
else:
    s = s.rstrip() + "\n\n" + a + "\n" + text + "\n" + b + "\n"
open(p, "w").write(s)
print("section 8 written:", tot, "seeds,", len(missed_first), "missed at first")

# ---- per-property "later rounds" blocks (section 3): what rounds f.. added to each check, from the seeds' meta.json
s = open(p).read()
for i in range(1, 21):
    pid = "C%02d" % i
    items = []
    for sname, m in sorted(seeds.items()):
        if m.get("property") != pid or len(sname) < 4 or sname[3:] < "f":
            continue
        if m.get("strengthening"):
            items.append(f">   * ({sname}) {re.sub(r'[|`]', '', re.sub(chr(10), ' ', m['strengthening']))}")
    a, b = f"<!-- LATER:{pid}:BEGIN -->", f"<!-- LATER:{pid}:END -->"
    block = a + "\n" + (">\n> **Added in seed rounds f and later** (each line: the seeded change that exposed the gap, and what the check generates / asserts since):\n" + "\n".join(items) + "\n" if items else "") + b
    if a in s:
        s = s[: s.index(a)] + block + s[s.index(b) + len(b):]
    else:
        # first time: put the block right after the property's first "As built" blockquote line
        hdr = re.search(r"^### " + pid + r"\b.*$", s, flags=re.M)
        if pid == "C18":
            hdr = re.search(r"^> \*\*As built:\*\* `vt/props/c18.py`", s, flags=re.M)
            j = s.index("\n", hdr.start())
        elif pid == "C17":
            hdr = re.search(r"^> \*\*As built:\*\* `vt/props/c17.py`", s, flags=re.M)
            j = s.index("\n", hdr.start())
        else:
            k = s.index("> **As built:**", hdr.start())
            j = s.index("\n", k)
        s = s[: j + 1] + block + "\n" + s[j + 1:]
open(p, "w").write(s)
print("later-round blocks written")
