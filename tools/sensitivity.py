#!/venv/bin/python
"""Sensitivity and false-alarm screen.

  tools/sensitivity.py mutants [PID ...]   apply every mutants/<PID>/*.diff and seeded/*/patch.diff (for PID)
                                           to a scratch copy of /repo's taskiq package, run the quick check with
                                           VERIF_REPO=<scratch>, expect exit 1 + VIOLATION line
  tools/sensitivity.py quiet [PID ...]     run every quick check on the unchanged tree at seeds 1..5, expect exit 0
  tools/sensitivity.py new <PID> <name>    save `diff -ru /repo/taskiq $SCRATCH/taskiq` as mutants/<PID>/<name>.diff
                                           (SCRATCH defaults to /tmp/mut; create it with `tools/sensitivity.py scratch`)
Results are written to mutants/RESULTS.json (informational; not evidence).
"""
import glob
import json
import os
import shutil
import subprocess
import sys
import tempfile
import time

ROOT = os.path.dirname(os.path.dirname(os.path.abspath(__file__)))
REPO = "/repo"
SCRATCH = os.environ.get("SCRATCH", "/tmp/mut")


def make_scratch(path):
    if os.path.exists(path):
        shutil.rmtree(path)
    os.makedirs(path)
    shutil.copytree(os.path.join(REPO, "taskiq"), os.path.join(path, "taskiq"),
                    ignore=shutil.ignore_patterns("__pycache__"))
    return path


def run_check(pid, repo, seed=1, tier="quick"):
    env = dict(os.environ, VERIF_REPO=repo, VERIF_SEED=str(seed), VERIF_EVIDENCE_DIR="")
    t = time.time()
    p = subprocess.run([os.path.join(ROOT, "check"), pid, tier], cwd=ROOT, env=env, capture_output=True, text=True)
    return p.returncode, p.stdout, time.time() - t


def mutants_for(pid):
    out = sorted(glob.glob(os.path.join(ROOT, "mutants", pid, "*.diff")))
    for meta in sorted(glob.glob(os.path.join(ROOT, "seeded", "*", "meta.json"))):
        with open(meta) as f:
            m = json.load(f)
        if str(m.get("status", "")).startswith("neutralised"):
            continue      # a later repo fix removed the behaviour this change relied on: it no longer breaks the property
        if pid in m.get("properties", [m.get("property")]):
            out.append(os.path.join(os.path.dirname(meta), "patch.diff"))
    return out


def cmd_mutants(pids):
    results = {}
    rpath = os.environ.get("SENS_RESULTS") or os.path.join(ROOT, "mutants", "RESULTS.json")      # SENS_RESULTS: partial file of a parallel group
    if os.path.exists(rpath):
        with open(rpath) as f:
            results = json.load(f)
    bad = 0
    for pid in pids:
        for diff in mutants_for(pid):
            tmp = tempfile.mkdtemp(prefix="vtmut-")
            try:
                make_scratch(tmp)
                p = subprocess.run(["patch", "-p1", "-s", "-d", tmp, "-i", diff], capture_output=True, text=True)
                if p.returncode != 0:
                    print(f"{pid} {os.path.relpath(diff, ROOT)}: PATCH FAILED {p.stdout} {p.stderr}")
                    bad += 1
                    continue
                # keep the unchanged evidence: point evidence elsewhere
                evid = os.path.join(ROOT, "evidence", f"{pid}.json")
                saved = open(evid).read() if os.path.exists(evid) else None
                rc, out, dt = run_check(pid, tmp)
                if saved is not None:
                    with open(evid, "w") as f:
                        f.write(saved)
                viol = [l for l in out.splitlines() if l.startswith("VIOLATION")]
                clauses = sorted({l.split("-")[1] for l in viol if "-" in l})
                ok = rc == 1 and bool(viol)
                name = os.path.relpath(diff, ROOT)
                results[f"{pid}:{name}"] = {"caught": ok, "rc": rc, "clauses": clauses, "wall_s": round(dt, 1)}
                print(f"{pid} {name}: {'CAUGHT' if ok else 'MISSED'} rc={rc} clauses={clauses} {dt:.0f}s")
                if not ok:
                    bad += 1
                    print("   ", out[-600:].replace("\n", "\n    "))
            finally:
                shutil.rmtree(tmp, ignore_errors=True)
    with open(rpath, "w") as f:
        json.dump(results, f, indent=1, sort_keys=True)
    return 1 if bad else 0


def cmd_quiet(pids):
    bad = 0
    for pid in pids:
        for seed in (1, 2, 3, 4, 5):
            rc, out, dt = run_check(pid, REPO, seed)
            last = out.strip().splitlines()[-1] if out.strip() else ""
            print(f"{pid} seed={seed} rc={rc} {dt:.0f}s {last}")
            if rc != 0:
                bad += 1
                print(out[-1500:])
    return 1 if bad else 0


def cmd_new(pid, name):
    d = os.path.join(ROOT, "mutants", pid)
    os.makedirs(d, exist_ok=True)
    p = subprocess.run(["diff", "-ru", "-x", "__pycache__", "taskiq", os.path.join(os.path.relpath(SCRATCH, REPO), "taskiq")],
                       cwd=REPO, capture_output=True, text=True)
    text = p.stdout.replace(os.path.join(os.path.relpath(SCRATCH, REPO), "taskiq"), "b/taskiq")
    text = "\n".join(("--- a/" + l[4:] if l.startswith("--- taskiq") else "+++ " + l[4:] if l.startswith("+++ b/taskiq") else l)
                     for l in text.splitlines()) + "\n"
    if not text.strip():
        print("no difference")
        return 1
    path = os.path.join(d, name + ".diff")
    with open(path, "w") as f:
        f.write(text)
    print("wrote", path)
    make_scratch(SCRATCH)
    return 0


def main():
    a = sys.argv[1:]
    allp = ["C%02d" % i for i in range(1, 21)]
    if not a:
        print(__doc__)
        return 0
    if a[0] == "scratch":
        print(make_scratch(SCRATCH))
        return 0
    if a[0] == "new":
        return cmd_new(a[1], a[2])
    if a[0] == "sub":
        # sub <PID> <name> <relfile> <old> <new> [<relfile> <old> <new> ...]
        make_scratch(SCRATCH)
        rest = a[3:]
        while rest:
            rel, old, new = rest[:3]
            rest = rest[3:]
            fp = os.path.join(SCRATCH, rel)
            src = open(fp).read()
            if src.count(old) != 1:
                print(f"pattern occurs {src.count(old)} times in {rel}")
                return 2
            open(fp, "w").write(src.replace(old, new))
        return cmd_new(a[1], a[2])
    if a[0] == "mutants":
        return cmd_mutants(a[1:] or allp)
    if a[0] == "quiet":
        return cmd_quiet(a[1:] or allp)
    print(__doc__)
    return 2


if __name__ == "__main__":
    sys.exit(main())
