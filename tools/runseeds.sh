#!/bin/sh
# run only the seeded patches for given PIDs
cd /verif
for p in "$@"; do
/venv/bin/python - "$p" <<'PY'
import sys,os,shutil,tempfile,subprocess,importlib.util
spec=importlib.util.spec_from_file_location('sens','/verif/tools/sensitivity.py'); m=importlib.util.module_from_spec(spec); spec.loader.exec_module(m)
pid=sys.argv[1]
for diff in m.mutants_for(pid):
    if '/seeded/' not in diff: continue
    if os.environ.get('SEED_FILTER') and os.environ['SEED_FILTER'] not in diff: continue
    tmp=tempfile.mkdtemp(prefix='vtmut-'); m.make_scratch(tmp)
    subprocess.run(['patch','-p1','-s','-d',tmp,'-i',diff],check=True)
    evp=f'/verif/evidence/{pid}.json'; ev=open(evp).read() if os.path.exists(evp) else None
    rc,out,dt=m.run_check(pid,tmp)
    if ev: open(evp,'w').write(ev)
    viol=[l for l in out.splitlines() if l.startswith('VIOLATION')]
    print(pid, os.path.relpath(diff,'/verif'), 'CAUGHT' if rc==1 and viol else 'MISSED', 'rc=%d'%rc, sorted({l.split('-')[1] for l in viol if '-' in l}), '%.0fs'%dt, flush=True)
    shutil.rmtree(tmp)
PY
done
