#!/venv/bin/python
"""Verify a sub-agent's seeded change in its scratch worktree and import it into /verif/seeded/.

  tools/import_seed.py <PID> [<suffix>]      worktree /tmp/wt/<PID>[<suffix>], deliverables in _seed/

Checks (all by this script, not taken from the agent's report):
  1. `git diff -- taskiq` of the worktree equals _seed/patch.diff and touches only taskiq/
  2. the repository's test suite passes with the change (146 passed, only the 2 pre-existing collection errors)
  3. _seed/demo.py exits 1 with the change and 0 without it (patch reverse-applied, then re-applied)
On success writes seeded/<PID><suffix>/{patch.diff,demo.py,notes.md,meta.json}.
"""
import json
import os
import re
import shutil
import subprocess
import sys

ROOT = os.path.dirname(os.path.dirname(os.path.abspath(__file__)))


def sh(cmd, cwd, timeout=900):
    p = subprocess.run(cmd, cwd=cwd, shell=True, capture_output=True, text=True, timeout=timeout)
    return p.returncode, p.stdout + p.stderr


def main():
    pid = sys.argv[1]
    suffix = sys.argv[2] if len(sys.argv) > 2 else ""
    wt = f"/tmp/wt/{pid}{suffix}"
    seed = os.path.join(wt, "_seed")
    patch = open(os.path.join(seed, "patch.diff")).read()
    rc, diff = sh("git diff -- taskiq", wt)
    ran = []
    if diff.strip() != patch.strip():
        print("WARNING: worktree diff differs from patch.diff; resetting worktree to HEAD + patch.diff")
        sh("git checkout -- taskiq", wt)
        rc, o = sh("git apply _seed/patch.diff", wt)
        if rc:
            print("patch does not apply:", o)
            return 1
    files = re.findall(r"^\+\+\+ b/(\S+)", patch, re.M)
    if not files or any(not f.startswith("taskiq/") for f in files):
        print("patch touches files outside taskiq/:", files)
        return 1
    rc, o = sh("/venv/bin/python -m pytest -q -p no:cacheprovider --timeout=900 --continue-on-collection-errors tests", wt)
    tail = o.strip().splitlines()[-1]
    ran.append({"cmd": "pytest (with change)", "result": tail})
    if "146 passed" not in tail or "failed" in tail:
        print("test suite does not pass with the change:", tail)
        return 1
    rc1, o1 = sh("/venv/bin/python _seed/demo.py", wt, 300)
    ran.append({"cmd": "demo.py (with change)", "rc": rc1, "tail": o1.strip().splitlines()[-3:]})
    rcr, o = sh("git apply -R _seed/patch.diff", wt)
    if rcr:
        print("cannot reverse patch", o)
        return 1
    try:
        rc0, o0 = sh("/venv/bin/python _seed/demo.py", wt, 300)
    finally:
        sh("git apply _seed/patch.diff", wt)
    ran.append({"cmd": "demo.py (without change)", "rc": rc0, "tail": o0.strip().splitlines()[-3:]})
    if rc1 != 1 or rc0 != 0:
        print(f"demo does not discriminate: with change rc={rc1}, without rc={rc0}")
        print(o1[-500:], "\n---\n", o0[-500:])
        return 1
    dst = os.path.join(ROOT, "seeded", f"{pid}{suffix}")
    os.makedirs(dst, exist_ok=True)
    for f in ("patch.diff", "demo.py", "notes.md"):
        if os.path.exists(os.path.join(seed, f)):
            shutil.copy(os.path.join(seed, f), os.path.join(dst, f))
    notes = open(os.path.join(seed, "notes.md")).read() if os.path.exists(os.path.join(seed, "notes.md")) else ""
    meta = {"property": pid, "properties": [pid], "origin": "independent sub-agent given only the property text and a scratch worktree",
            "files_changed": files, "needs_to_manifest": "see notes.md", "verified_by_me": ran,
            "base_commit": sh("git rev-parse --short HEAD", wt)[1].strip(), "notes_head": notes[:600]}
    mp = os.path.join(dst, "meta.json")
    if os.path.exists(mp):
        old = json.load(open(mp))
        for k in ("caught_by", "needs_to_manifest", "properties"):
            if k in old:
                meta[k] = old[k]
    json.dump(meta, open(mp, "w"), indent=1)
    print("imported", dst, "| demo with change:", o1.strip().splitlines()[-1][:150])
    return 0


if __name__ == "__main__":
    sys.exit(main())
