#!/venv/bin/python
"""Regenerate MANIFEST.json from the property modules that exist (vt/props/cNN.py).
Properties without a module are listed under not_applicable with reason 'check not built yet' -
that list must be empty when the work is finished (DESIGN.md claims every property)."""
import importlib
import json
import os
import sys

ROOT = os.path.dirname(os.path.dirname(os.path.abspath(__file__)))
sys.path.insert(0, ROOT)
sys.path.insert(0, "/repo")

TECH = {
    "C01": "property-based testing over arrival schedules x configurations (Hypothesis) with an exactly-once trace oracle and a metamorphic relation",
    "C02": "property-based testing over schedules/outcomes with a trace-position oracle and crash-point (trace prefix) enumeration",
    "C03": "property-based testing over outcome/fault histories followed by a saturation probe; interval-overlap invariant",
    "C04": "property-based testing over burst schedules; invariant (taken - finished <= A+P+1) at every trace index, tightness measured",
    "C05": "property-based testing over stop instants/configurations on a virtual clock; timing-bound oracle for listen() return",
    "C06": "property-based testing over generated dependency-graph programs under overlapping executions; echo oracle",
    "C07": "property-based testing over outcomes / timeouts / backend faults; scripted-outcome oracle on the recorded results",
    "C08": "property-based testing over generated task signatures and call splits; pydantic TypeAdapter as conversion oracle; formatter round trip",
    "C09": "property-based testing over typed label dictionaries (round trip through retries/requeues) + rule-based state machine over kicker histories",
    "C10": "property-based testing over middleware stacks; documented-order oracle on the per-message hook sequence",
    "C11": "model-based property testing: reference retry model vs SimpleRetryMiddleware through real encode/decode",
    "C12": "property-based testing over generated dependency DAG programs; open/close bracket-order oracle on the trace",
    "C13": "differential property-based testing against an independent crontab(5) matcher on zoneinfo time; minute-exhaustive day sweeps; metamorphic seconds-invariance",
    "C14": "property-based testing with an integer-microsecond oracle, edge-biased generator",
    "C15": "property-based testing over scheduler runs on a virtual clock with fault injection; per-minute / per-schedule send-count oracle",
    "C16": "property-based testing (payload/callback order) + rule-based state machine against a list model of the label source",
    "C17": "bounded exhaustive enumeration of event histories + Hypothesis long histories against a fake OS; trace invariants",
    "C18": "bounded exhaustive enumeration + Hypothesis histories; differential against a reference model of budget/reload/shutdown plus trace invariants",
    "C19": "property-based testing over generated exception graphs; round-trip oracle for JSON text / JSON dict / pickle",
    "C20": "exhaustive enumeration of every (module, attribute) name loaded in the process + Hypothesis payloads with planted traps; outcome/side-effect oracle",
}


for _p in ("C08", "C13", "C16", "C19", "C20"):
    TECH[_p] += "; thorough tier adds coverage-guided fuzzing of the same strategy (libFuzzer via atheris, taskiq instrumented)"


def main() -> int:
    checks, na = [], []
    for i in range(1, 21):
        pid = "C%02d" % i
        try:
            mod = importlib.import_module("vt.props." + pid.lower())
        except ModuleNotFoundError as e:
            if "vt.props" in str(e):
                na.append({"property_id": pid, "reason": "check not built yet (planned in DESIGN.md section 3)"})
                continue
            raise
        if getattr(mod, "NOT_APPLICABLE", None):
            na.append({"property_id": pid, "reason": mod.NOT_APPLICABLE})
            continue
        checks.append({
            "property_id": pid,
            "quick_cmd": f"./check {pid} quick",
            "thorough_cmd": f"./check {pid} thorough",
            "evidence_file": f"evidence/{pid}.json",
            "replay_cmd_template": "./check --replay {path}",
            "engine": "vt",
            "level_claimed": {
                "category": "exploration",
                "text": getattr(mod, "LEVEL_TEXT", None) or ("Generated-input search against an explicit oracle: " + mod.RULE),
                "design_ref": f"DESIGN.md section 3, {pid}",
            },
            "level_note": "; ".join(getattr(mod, "ASSUMPTIONS", [])) or "see DESIGN.md",
            "technique": TECH[pid],
        })
    man = {
        "version": 1,
        "setup_cmd": "/venv/bin/python -c 'import hypothesis' 2>/dev/null || /venv/bin/pip install --no-index --find-links /opt/veriftools/wheels hypothesis sortedcontainers; ./check --selftest",
        "hooks": {
            "guard": "TASKIQ_VERIF",
            "enable": "no source hooks: checks subclass taskiq's extension points (AsyncBroker, AsyncResultBackend, TaskiqMiddleware, ScheduleSource) and rebind module-level names (scheduler datetime, process-manager OS API) for the duration of a case; taskiq is imported from /repo's working tree ($VERIF_REPO overrides)",
            "baseline_off_cmd": "cd /repo && /venv/bin/python -m pytest -ra -q -p no:cacheprovider --timeout=900 --continue-on-collection-errors",
            "source_commits": [],
            "add_only": True,
        },
        "engines": [{
            "name": "vt", "path": "vt/", "serves_properties": [c["property_id"] for c in checks],
            "kind_free_text": "Hypothesis strategies / rule-based state machines / bounded exhaustive enumeration / libFuzzer-driven (atheris) runs of the same strategies, a virtual-time asyncio loop, scripted broker/backend/middleware/source harnesses, a fake OS for the process manager; sharded over up to 16 processes; every failure shrunk to a JSON replay file",
        }],
        "checks": checks,
        "notes": "Exit 0 = held on everything explored; exit 1 + 'VIOLATION property=<id> replay=<path>'; exit 2 = harness error/inconclusive. "
                 "known_findings.json lists open findings (reported as KNOWN-FINDING lines) and fixed: entries; regress/ holds shrunk failures of repaired defects, replayed first on every run; mutants/ and seeded/ hold the sensitivity catalogue (tools/sensitivity.py).",
        "not_applicable": na,
    }
    with open(os.path.join(ROOT, "MANIFEST.json"), "w") as f:
        json.dump(man, f, indent=1)
        f.write("\n")
    print("checks:", [c["property_id"] for c in checks], "not built:", [n["property_id"] for n in na])
    return 0


if __name__ == "__main__":
    sys.exit(main())
