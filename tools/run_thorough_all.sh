#!/bin/sh
# run every check's thorough tier one after the other; one summary line per property
cd "$(dirname "$0")/.."
for i in 01 02 03 04 05 06 07 08 09 10 11 12 13 14 15 16 17 18 19 20; do
  start=$(date +%s)
  ./check C$i thorough > /tmp/thorough_C$i.log 2>&1
  rc=$?
  echo "C$i rc=$rc $(( $(date +%s) - start ))s $(grep -c VIOLATION /tmp/thorough_C$i.log) violations; $(tail -1 /tmp/thorough_C$i.log)"
done
