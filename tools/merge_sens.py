import json, glob, os
ROOT="/verif"
res={}
for f in sorted(glob.glob("/tmp/sens_part_C*.json")):
    d=json.load(open(f))
    res.update(d)
# keep only keys whose patch exists and whose seed is not neutralised
out={}
for k,v in res.items():
    pid, rel = k.split(":",1)
    if not os.path.exists(os.path.join(ROOT, rel)):
        continue
    if rel.startswith("seeded/"):
        m=json.load(open(os.path.join(ROOT, os.path.dirname(rel), "meta.json")))
        if str(m.get("status","")).startswith("neutralised"):
            continue
    out[k]=v
json.dump(out, open(os.path.join(ROOT,"mutants","RESULTS.json"),"w"), indent=1, sort_keys=True)
print(len(out), "entries;", sum(1 for v in out.values() if not v["caught"]), "not caught")
